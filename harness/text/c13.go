package text

import (
	"github.com/200sc/bebop"

	"vh/vstub"
)

// lower returns a symbolic lower-case letter.
func lower() byte {
	c := vstub.NondetU8()
	vstub.Assume(vstub.And(c >= 'a', c <= 'z'))
	return c
}

// digit returns a symbolic decimal digit in [lo, 9].
func digit(lo byte) byte {
	c := vstub.NondetU8()
	vstub.Assume(vstub.And(c >= lo, c <= '9'))
	return c
}

// accepted runs ReadFile and Validate (what Generate does first).
func accepted(src []byte) bool {
	vstub.SetLoopBudget(64*len(src) + 4096)
	f, _, err := bebop.ReadFile(reader(src))
	if err != nil {
		return false
	}
	return f.Validate() == nil
}

// expect asserts that the schema is rejected exactly when bad holds.
func expect(id string, src []byte, bad bool) {
	ok := accepted(src)
	// two assertions so that a finding says which direction failed
	vstub.Assert("c13.rejects/"+id, vstub.Or(!bad, !ok))
	vstub.Assert("c13.accepts/"+id, vstub.Or(bad, ok))
	vstub.Reach("c13")
}

var defKinds = []string{"struct", "message", "enum", "union"}

func defText(kind int, name []byte) []byte {
	switch kind {
	case 0:
		return app(nil, "struct ", name, " { int32 x; }\n")
	case 1:
		return app(nil, "message ", name, " { 1 -> int32 x; }\n")
	case 2:
		return app(nil, "enum ", name, " { A = 1; }\n")
	}
	return app(nil, "union ", name, " { 1 -> struct In", name, " { bool b; } }\n")
}

// C13Dup: duplicate names. which: 0 struct fields, 1 message fields, 2 enum
// options, 3 definitions (every ordered pair of kinds), 4 an inline union
// branch against a top-level definition, 5 consts.
func C13Dup(which int) {
	c1, c2 := lower(), lower()
	n1, n2 := []byte{'N', c1}, []byte{'N', c2}
	bad := c1 == c2
	switch which {
	case 0:
		expect("dup-struct-field", app(nil, "struct S { int32 ", n1, "; string ", n2, "; }\n"), bad)
	case 1:
		expect("dup-message-field", app(nil, "message M { 1 -> int32 ", n1, "; 2 -> string ", n2, "; }\n"), bad)
	case 2:
		expect("dup-enum-option", app(nil, "enum E { ", n1, " = 1; ", n2, " = 2; }\n"), bad)
	case 3:
		k1, k2 := vstub.Choose(0, 3), vstub.Choose(0, 3)
		expect("dup-definition/"+defKinds[k1]+"+"+defKinds[k2], app(defText(k1, n1), defText(k2, n2)), bad)
	case 4:
		// union U { 1 -> struct N? {...} } and a top-level definition N?
		k := vstub.Choose(0, 2)
		src := app(nil, "union U { 1 -> struct ", n1, " { bool b; } }\n")
		expect("dup-definition/union-branch+"+defKinds[k], app(src, defText(k, n2)), bad)
	case 5:
		expect("dup-const", app(nil, "const int32 ", n1, " = 1;\nconst int32 ", n2, " = 2;\n"), bad)
	case 6:
		// the same inside the inline definitions of a union
		expect("dup-union-branch-struct-field", app(nil, "union U { 1 -> struct A { int32 ", n1, "; string ", n2, "; } }\n"), bad)
	case 7:
		expect("dup-union-branch-message-field", app(nil, "union U { 1 -> message A { 1 -> int32 ", n1, "; 2 -> string ", n2, "; } }\n"), bad)
	}
}

// C13Num: duplicate numbers. which: 0 enum values (unsigned), 1 enum values
// (signed base), 2 message indices, 3 union indices, 4 opcodes (every pair of
// record kinds), 5 message index zero.
func C13Num(which int) {
	d1, d2 := digit('1'), digit('1')
	bad := d1 == d2
	switch which {
	case 0:
		expect("dup-enum-value", app(nil, "enum E { A = ", d1, "; B = ", d2, "; }\n"), bad)
	case 1:
		expect("dup-enum-value-signed", app(nil, "enum E : int16 { A = -", d1, "; B = -", d2, "; }\n"), bad)
	case 2:
		expect("dup-message-index", app(nil, "message M { ", d1, " -> int32 a; ", d2, " -> int32 b; }\n"), bad)
	case 3:
		expect("dup-union-index", app(nil, "union U { ", d1, " -> struct A { bool b; } ", d2, " -> struct B { bool b; } }\n"), bad)
	case 4:
		k1, k2 := vstub.Choose(0, 2), vstub.Choose(0, 2)
		rec := func(k int, name string) []byte {
			switch k {
			case 0:
				return app(nil, "struct ", name, " { int32 x; }\n")
			case 1:
				return app(nil, "message ", name, " { 1 -> int32 x; }\n")
			}
			return app(nil, "union ", name, " { 1 -> struct In", name, " { bool b; } }\n")
		}
		src := app(nil, "[opcode(", d1, ")]\n", rec(k1, "Ra"), "[opcode(0x", d2, ")]\n", rec(k2, "Rb"))
		expect("dup-opcode", src, bad)
	case 5:
		z := digit('0')
		expect("message-index-zero", app(nil, "message M { ", z, " -> int32 a; }\n"), z == '0')
	}
}

// C13Undef: a reference to an undefined type at every kind of site.
func C13Undef(site int) {
	c := lower()
	ref := []byte{'T', c}
	bad := c != 'a'
	base := "struct Ta { int32 x; }\n"
	switch site {
	case 0:
		expect("undefined/struct-field", app(nil, base, "struct S { ", ref, " f; }\n"), bad)
	case 1:
		expect("undefined/message-field", app(nil, base, "message M { 1 -> ", ref, " f; }\n"), bad)
	case 2:
		expect("undefined/array", app(nil, base, "struct S { ", ref, "[] f; }\n"), bad)
	case 3:
		expect("undefined/map-value", app(nil, base, "struct S { map[string, ", ref, "] f; }\n"), bad)
	case 4:
		expect("undefined/nested", app(nil, base, "message M { 1 -> map[int32, ", ref, "[]][] f; }\n"), bad)
	case 5:
		expect("undefined/union-struct-branch", app(nil, base, "union U { 1 -> struct B { ", ref, " f; } }\n"), bad)
	case 6:
		expect("undefined/union-message-branch", app(nil, base, "union U { 1 -> message B { 1 -> ", ref, " f; } }\n"), bad)
	case 7:
		// sparse indices: the offending field's index exceeds the number of fields
		expect("undefined/message-field-sparse", app(nil, base, "message M { 2 -> int32 a; 9 -> ", ref, " f; }\n"), bad)
	case 8:
		expect("undefined/message-field-high-index", app(nil, base, "message M { 200 -> map[string, ", ref, "[]] f; }\n"), bad)
	case 9:
		expect("undefined/struct-later-field", app(nil, base, "struct S { int32 a; string b; Ta c; ", ref, " f; }\n"), bad)
	case 10:
		expect("undefined/map-key-ok-value-bad", app(nil, base, "struct S { map[guid, map[int32, ", ref, "]] f; }\n"), bad)
	}
}

var primNames = []string{"bool", "byte", "uint8", "uint16", "int16", "uint32", "int32", "uint64", "int64", "float32", "float64", "string", "guid", "date"}

// C13Prim: a definition named like a primitive is rejected.
func C13Prim() {
	p := primNames[vstub.Choose(0, len(primNames)-1)]
	k := vstub.Choose(0, 5)
	switch k {
	case 4:
		expect("primitive-name/union-struct-branch", app(nil, "union U { 1 -> struct ", p, " { int32 x; } }\n"), true)
	case 5:
		expect("primitive-name/union-message-branch", app(nil, "union U { 1 -> message ", p, " { 1 -> int32 x; } }\n"), true)
	default:
		expect("primitive-name/"+defKinds[k], defText(k, []byte(p)), true)
	}
}

// C13FlagsRange: a [flags] member written as a literal outside the base type
// is rejected like any other enum value (one inside is accepted).
func C13FlagsRange(bi int) {
	b := bases[bi]
	if b.max > 0xffffffff {
		lit := "18446744073709551616"
		if b.signed {
			lit = "9223372036854775808"
		}
		expect("flags-range/"+b.name, app(nil, "[flags]\nenum E : ", b.name, " { A = ", lit, "; }\n"), true)
		return
	}
	k := 3
	if b.max > 0xffff {
		k = 5
	}
	lit, v := dec(k)
	expect("flags-range/"+b.name, app(nil, "[flags]\nenum E : ", b.name, " { A = ", lit, "; }\n"), v > b.max)
}

// C13Range: an enum value outside its base type is rejected, one inside is accepted.
func C13Range(bi int) {
	b := bases[bi]
	form := vstub.Choose(0, 1)
	var lit []byte
	var v uint64
	neg := false
	k := 3
	if b.max > 0xffff {
		k = 5
	}
	if form == 1 && b.signed {
		var d []byte
		d, v = dec(k)
		lit = app(nil, "-", d)
		neg = true
	} else {
		lit, v = dec(k)
	}
	if b.max > 0xffffffff {
		// 64-bit bases: use the boundary itself, the digits stay concrete
		if neg {
			lit, v = []byte("-9223372036854775809"), 0
			expect("enum-range/"+b.name, app(nil, "enum E : ", b.name, " { A = ", lit, "; }\n"), true)
			return
		}
		if b.signed {
			lit = []byte("9223372036854775808")
		} else {
			lit = []byte("18446744073709551616")
		}
		expect("enum-range/"+b.name, app(nil, "enum E : ", b.name, " { A = ", lit, "; }\n"), true)
		return
	}
	bad := v > b.max
	if neg {
		bad = v > b.minAbs
	}
	expect("enum-range/"+b.name, app(nil, "enum E : ", b.name, " { A = ", lit, "; }\n"), bad)
}

var constBad = []string{
	"const int32 x = \"s\";", "const uint8 x = true;", "const int64 x = 1.5;", "const bool x = 1;", "const bool x = \"true\";",
	"const string x = 5;", "const string x = true;", "const float32 x = \"1\";", "const float64 x = false;",
	"const guid x = \"abc\";", "const guid x = 7;", "const E x = 1;", "const int32[] x = 1;",
}

// literals that cannot be read as a value of the declared numeric type at all
var constUnreadable = []string{"const uint8 x = -1;", "const uint64 x = -0x10;", "const int32 x = 1e5;", "const int16 x = 1e2;"}

var constGood = []string{
	"const int32 x = -5;", "const uint64 x = 0xff;", "const float32 x = 1.5;", "const float64 x = 2;", "const bool x = false;",
	"const string x = \"hi\";", "const guid x = \"e215a946-b26f-4567-a276-13136f0a1708\";", "const float64 x = inf;", "const float32 x = nan;",
}

// C13Const: a const literal of the wrong kind for its type is rejected.
func C13Const() {
	switch vstub.Choose(0, 2) {
	case 0:
		i := vstub.Choose(0, len(constBad)-1)
		expect("const-kind", app(nil, "enum E { A = 1; }\n", constBad[i], "\n"), true)
	case 2:
		i := vstub.Choose(0, len(constUnreadable)-1)
		expect("const-unreadable", app(nil, constUnreadable[i], "\n"), true)
	default:
		i := vstub.Choose(0, len(constGood)-1)
		expect("const-kind-ok", app(nil, constGood[i], "\n"), false)
	}
}

// C13Rec: three structs Ta, Tb, Tc with two fields each whose types are
// symbolic names out of {Ta, Tb, Tc, Tm}; Tm is a message (recursion through
// it terminates). The schema must be rejected exactly when some struct
// contains itself through struct fields only.
func C13Rec(variant int, first byte) {
	var c [3][2]byte
	for i := range c {
		for j := range c[i] {
			x := vstub.NondetU8()
			vstub.Assume(vstub.Or(vstub.And(x >= 'a', x <= 'c'), x == 'm'))
			c[i][j] = x
		}
	}
	// (sharding: the first field type is fixed per harness function)
	vstub.Assume(c[0][0] == first)
	var adj [3][3]bool
	for i := 0; i < 3; i++ {
		for j := 0; j < 3; j++ {
			adj[i][j] = vstub.Or(c[i][0] == byte('a'+j), c[i][1] == byte('a'+j))
		}
	}
	for m := 0; m < 3; m++ {
		for i := 0; i < 3; i++ {
			for j := 0; j < 3; j++ {
				adj[i][j] = vstub.Or(adj[i][j], vstub.And(adj[i][m], adj[m][j]))
			}
		}
	}
	bad := vstub.Or(adj[0][0], vstub.Or(adj[1][1], adj[2][2]))
	// a [deprecated] attribute on a struct field changes nothing: struct fields
	// are always encoded. variant 0: none, 1: every f field, 2: every field
	dep := func(on bool) string {
		if on {
			return "[deprecated(\"d\")] "
		}
		return ""
	}
	var src []byte
	for i := 0; i < 3; i++ {
		src = app(src, "struct T", byte('a'+i), " { ", dep(variant >= 1), "T", c[i][0], " f; ", dep(variant == 2), "T", c[i][1], " g; }\n")
	}
	src = app(src, "message Tm { 1 -> Ta x; 2 -> Tm y; }\n")
	expect("recursive-struct", src, bad)
}

// C13RecOK: recursion through a message or a union is accepted.
func C13RecOK() {
	switch vstub.Choose(0, 7) {
	case 0:
		expect("recursion-through-message", []byte("message M { 1 -> M next; 2 -> S s; }\nstruct S { M m; }\n"), false)
	case 1:
		expect("recursion-through-union", []byte("union L { 1 -> struct Cons { uint32 head; L tail; } 2 -> struct Nil {} }\n"), false)
	case 3:
		expect("recursion-direct-deprecated", []byte("struct S { int32 a; [deprecated(\"no\")] S s; }\n"), true)
	case 6:
		expect("recursion-union-branch-struct", []byte("union U { 1 -> struct A { int32 v; A next; } }\n"), true)
	case 7:
		expect("recursion-union-branch-through-top-level", []byte("struct T { A a; }\nunion U { 1 -> struct A { T t; } }\n"), true)
	case 4:
		expect("recursion-through-array-of-message", []byte("message M { 1 -> S[] list; }\nstruct S { M m; }\n"), false)
	default:
		expect("recursion-direct", []byte("struct S { int32 a; S s; }\n"), true)
	}
}
