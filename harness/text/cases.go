package text

import (
	"vh/vstub"
)

// ---------- symbolic building blocks ----------

var symBudget int // symbolic identifier characters still available on this path

// symOn switches the symbolic details on; when off every builder returns a
// fixed representative (used by the ordered-pair cases, which are about
// attributes leaking between definitions, not about spellings).
var symOn = true

// Deep (thorough tier): the ordered-pair cases and the structural cases keep
// their symbolic details (first definition of a pair), two identifier
// characters may be symbolic, and every layout is tried on every case.
var Deep bool

// ident returns prefix, followed (budget permitting) by one symbolic
// identifier character out of [a-z0-9_].
func ident(prefix string) string {
	if symBudget <= 0 || !symOn {
		return prefix
	}
	symBudget--
	c := vstub.NondetU8()
	vstub.Assume(vstub.Or(vstub.Or(vstub.And(c >= 'a', c <= 'z'), vstub.And(c >= '0', c <= '9')), c == '_'))
	return prefix + string([]byte{c})
}

// dec returns n symbolic decimal digits (no leading zero) and their value.
func dec(n int) ([]byte, uint64) {
	b := make([]byte, n)
	v := uint64(0)
	if !symOn {
		for i := range b {
			b[i] = byte('1' + i)
			v = v*10 + uint64(1+i)
		}
		return b, v
	}
	for i := range b {
		d := vstub.NondetU8()
		if i == 0 {
			vstub.Assume(vstub.And(d >= '1', d <= '9'))
		} else {
			vstub.Assume(vstub.And(d >= '0', d <= '9'))
		}
		b[i] = d
		v = v*10 + uint64(d-'0')
	}
	return b, v
}

// printable returns n symbolic printable ASCII bytes that are safe inside
// comments and string literals (no quote, backslash, star or slash).
func printable(n int) string {
	b := make([]byte, n)
	if !symOn {
		for i := range b {
			b[i] = byte('p' + i)
		}
		return string(b)
	}
	for i := range b {
		c := vstub.NondetU8()
		vstub.Assume(vstub.And(vstub.And(c >= ' ', c <= '~'), vstub.And(vstub.And(c != '"', c != '\\'), vstub.And(c != '*', c != '/'))))
		b[i] = c
	}
	return string(b)
}

func prim(s string) Ty        { return Ty{Simple: s} }
func arrOf(t Ty) Ty           { return Ty{Arr: &t} }
func arrKw(t Ty) Ty           { return Ty{Arr: &t, ArrayKeyword: true} }
func mapOf(k string, v Ty) Ty { return Ty{MapK: k, MapV: &v} }

func idx(v uint8) []byte {
	if v >= 100 {
		return []byte{'0' + v/100, '0' + (v/10)%10, '0' + v%10}
	}
	if v >= 10 {
		return []byte{'0' + v/10, '0' + v%10}
	}
	return []byte{'0' + v}
}

// symIdx is a symbolic one-digit message/union index 1..9.
func symIdx() ([]byte, uint8) {
	if !symOn {
		return []byte{'3'}, 3
	}
	d := vstub.NondetU8()
	vstub.Assume(vstub.And(d >= '1', d <= '9'))
	return []byte{d}, d - '0'
}

// ---------- definition builders (each in a plain and an attributed flavour) ----------

func enumPlain(name string) Def {
	l1, v1 := dec(1)
	l2, v2 := dec(2)
	return Def{Kind: "enum", Name: name, Opts: []Opt{{Name: "A" + name, Lit: l1, U: v1, S: int64(v1)}, {Name: "B" + name, Lit: l2, U: v2, S: int64(v2)}}}
}

func enumTyped(name, base string) Def {
	l, v := dec(2)
	return Def{Kind: "enum", Name: name, Base: base, Opts: []Opt{{Name: "A" + name, Lit: l, U: v, S: int64(v)}, {Name: "Z" + name, Lit: []byte("0"), U: 0, S: 0}}}
}

func enumFlags(name string) Def {
	return Def{Kind: "enum", Name: name, Flags: true, Opts: []Opt{
		{Name: "A" + name, Lit: []byte("1"), U: 1, S: 1},
		{Name: "B" + name, Lit: []byte("1 << 1"), U: 2, S: 2},
		{Name: "C" + name, Lit: []byte("A" + name + " | B" + name), U: 3, S: 3},
	}}
}

// quietly builds a definition with every spelling detail concrete (the doc
// cases are about comments and attributes; digits and identifiers are the
// business of the plain cases).
func quietly(build func() Def) Def {
	saved := symOn
	symOn = false
	d := build()
	symOn = saved
	return d
}

func enumDocs(name string) Def {
	d := quietly(func() Def { return enumPlain(name) })
	d.Doc = " " + printable(1)
	d.Opts[0].Doc = " opt"
	d.Opts[1].Depr, d.Opts[1].DeprM = true, "gone"
	return d
}

func structPlain(name string) Def {
	return Def{Kind: "struct", Name: name, Fields: []Fld{{Name: ident("x"), Ty: prim("int32")}, {Name: "s", Ty: prim("string")}}}
}

func structTypes(name string) Def {
	return Def{Kind: "struct", Name: name, Fields: []Fld{
		{Name: "a", Ty: arrOf(prim("byte"))},
		{Name: "b", Ty: arrKw(prim("guid"))},
		{Name: "c", Ty: mapOf("string", prim("date"))},
	}}
}

// deepTypes are type expressions with more than one array/map level, each
// exercised as the only field of a struct and of a message.
var deepTypes = []struct {
	name string
	ty   Ty
}{
	{"T[][]", arrOf(arrOf(prim("float32")))},
	{"map[K,T[]]", mapOf("uint16", arrOf(prim("bool")))},
	{"map[K,map[K,T]][]", arrOf(mapOf("int64", mapOf("guid", prim("float64"))))},
	{"array[array[T]]", arrKw(arrKw(prim("uint64")))},
	{"array[T[]]", arrKw(arrOf(prim("int32")))},
	{"array[T][]", arrOf(arrKw(prim("int32")))},
	{"map[K,array[T]]", mapOf("string", arrKw(prim("string")))},
	{"map[K,T][]", arrOf(mapOf("byte", prim("int16")))},
	{"T[][][]", arrOf(arrOf(arrOf(prim("uint8"))))},
	{"array[map[K,T[]]]", arrKw(mapOf("guid", arrOf(prim("date"))))},
}

func deepTypeCase(i int) []Def {
	t := deepTypes[i]
	i1, v1 := symIdx()
	return []Def{
		{Kind: "struct", Name: "S", Fields: []Fld{{Name: "f", Ty: t.ty}, {Name: "g", Ty: prim("int32")}}},
		{Kind: "message", Name: "M", Fields: []Fld{{Name: "f", Ty: t.ty, Index: i1, IdxV: v1}}},
	}
}

func structRO(name string) Def {
	d := structPlain(name)
	d.ReadOnly = true
	return d
}

func structOpInt(name string) Def {
	d := structPlain(name)
	l, v := dec(3)
	d.OpLit, d.OpV = l, uint32(v)
	return d
}

func structOpStr(name string) Def {
	d := structPlain(name)
	s := printable(4)
	d.OpLit = []byte("\"" + s + "\"")
	d.OpV = uint32(s[0]) | uint32(s[1])<<8 | uint32(s[2])<<16 | uint32(s[3])<<24
	return d
}

func structDocs(name string) Def {
	d := quietly(func() Def { return structPlain(name) })
	d.BlockDoc = " block " + printable(1) + " "
	d.Doc = " line"
	d.Fields[0].Doc = " fd " + printable(1)
	d.Fields[1].Depr, d.Fields[1].DeprM = true, "old "+printable(1)
	return d
}

// blockDocs: multi-line block comments inside the bodies of a struct, an enum and a message.
func blockDocs() []Def {
	st := structPlain("S")
	st.Fields[0].BlockLines = []string{" first " + printable(1), " second", " "}
	en := Def{Kind: "enum", Name: "E", Opts: []Opt{{Name: "A", Lit: []byte("1"), U: 1, S: 1, BlockLines: []string{"* star", " * more "}}, {Name: "B", Lit: []byte("2"), U: 2, S: 2}}}
	ms := Def{Kind: "message", Name: "M", Fields: []Fld{{Name: "x", Ty: prim("int32"), Index: idx(1), IdxV: 1, BlockLines: []string{" one", "two"}, Doc: " and a line"}}}
	return []Def{st, en, ms}
}

func messagePlain(name string) Def {
	i1, v1 := symIdx()
	vstub.Assume(v1 != 9)
	return Def{Kind: "message", Name: name, Fields: []Fld{{Name: "x", Ty: prim("int32"), Index: i1, IdxV: v1}, {Name: ident("y"), Ty: arrOf(prim("string")), Index: idx(9), IdxV: 9}}}
}

func messageOp(name string) Def {
	d := messagePlain(name)
	d.OpLit, d.OpV = []byte("0x1F"), 0x1f
	return d
}

func messageDocs(name string) Def {
	d := quietly(func() Def { return messagePlain(name) })
	d.Doc = " m"
	d.Fields[0].Depr, d.Fields[0].DeprM = true, "d"
	d.Fields[1].Doc = " f"
	return d
}

func unionPlain(name string) Def {
	return Def{Kind: "union", Name: name, Branches: []Br{
		{Index: idx(1), IdxV: 1, Def: Def{Kind: "struct", Name: name + "S", Fields: []Fld{{Name: "a", Ty: prim("bool")}}}},
		{Index: idx(2), IdxV: 2, Def: Def{Kind: "message", Name: name + "M", Fields: []Fld{{Name: "b", Ty: prim("date"), Index: idx(1), IdxV: 1}}}},
	}}
}

// unionDocs: a deprecated branch FOLLOWED by further branches, doc comments on branches.
func unionDocs(name string) Def {
	return Def{Kind: "union", Name: name, Doc: " u", Branches: []Br{
		{Index: idx(1), IdxV: 1, Depr: true, DeprM: "old " + printable(1), Def: Def{Kind: "message", Name: name + "A", Fields: []Fld{{Name: "b", Ty: prim("date"), Index: idx(1), IdxV: 1}}}},
		{Index: idx(2), IdxV: 2, Def: Def{Kind: "struct", Name: name + "B", Doc: " second", Fields: []Fld{{Name: "a", Ty: prim("bool")}}}},
		{Index: idx(5), IdxV: 5, Depr: true, DeprM: "", Def: Def{Kind: "struct", Name: name + "C"}},
		{Index: idx(7), IdxV: 7, Def: Def{Kind: "message", Name: name + "D", Fields: []Fld{{Name: "x", Ty: prim("int32"), Index: idx(3), IdxV: 3, Depr: true, DeprM: "f"}, {Name: "y", Ty: prim("int32"), Index: idx(4), IdxV: 4}}}},
	}}
}

func unionOp(name string) Def {
	d := unionPlain(name)
	d.OpLit, d.OpV = []byte("7"), 7
	return d
}

func constDef(name, typ, lit string) Def {
	return Def{Kind: "const", Name: name, CType: typ, CLit: []byte(lit)}
}

func constSym(name string) Def {
	l, _ := dec(2)
	return Def{Kind: "const", Name: name, CType: "int32", CLit: l}
}

func importDef(p string) Def { return Def{Kind: "import", Import: p} }

// builders by kind index, used for the ordered-pair cases
const nKinds = 10

func byKind(k int, name string) Def {
	switch k {
	case 0:
		return enumFlags(name)
	case 1:
		return enumPlain(name)
	case 2:
		return structOpInt(name)
	case 3:
		return structRO(name)
	case 4:
		return structPlain(name)
	case 5:
		return messageOp(name)
	case 6:
		return unionOp(name)
	case 7:
		return constSym(name)
	case 8:
		return importDef("x.bop")
	}
	return enumTyped(name, "int16")
}

var enumBases = []string{"byte", "uint8", "uint16", "int16", "uint32", "int32", "uint64", "int64"}

// nSingles is the number of single-definition cases of Case.
const nSingles = 47

// NCases is the number of schema cases.
const NCases = nSingles + nKinds*nKinds

// Case builds schema number i. docs reports whether it carries doc comments
// or deprecation attributes (which need the multi-line layout).
func Case(i int) (defs []Def, docs bool) {
	symOn = true
	if i >= nSingles {
		p := i - nSingles
		symOn = Deep
		a := byKind(p/nKinds, "Pa")
		symOn = false
		b := byKind(p%nKinds, "Qb")
		symOn = Deep
		return []Def{a, b}, false
	}
	if i >= 30 && i < 40 {
		return deepTypeCase(i - 30), false
	}
	symOn = true
	switch i {
	case 0:
		return []Def{enumPlain(ident("E"))}, false
	case 1, 2, 3, 4, 5, 6, 7, 8:
		return []Def{enumTyped("E", enumBases[i-1])}, false
	case 9:
		return []Def{enumFlags("F")}, false
	case 10:
		return []Def{enumDocs("E")}, true
	case 11:
		return []Def{structPlain(ident("S"))}, false
	case 12:
		return []Def{structTypes("S")}, false
	case 13:
		return []Def{structRO("S")}, false
	case 14:
		return []Def{structOpInt("S")}, false
	case 15:
		return []Def{structOpStr("S")}, false
	case 16:
		return []Def{structDocs("S")}, true
	case 17:
		return []Def{messagePlain(ident("M"))}, false
	case 18:
		return []Def{messageOp("M")}, false
	case 19:
		return []Def{messageDocs("M")}, true
	case 20:
		return []Def{unionPlain("U")}, false
	case 21:
		return []Def{unionOp("U")}, false
	case 22:
		return []Def{constDef("a", "int32", "-5"), constDef("b", "uint64", "0xFfe"), constSym("c"), constDef("d", "int16", "-0x7f")}, false
	case 23:
		// inf / -inf / nan are left out: the File stores them as Go expressions
		// (an implementation convention the property does not fix)
		return []Def{constDef("a", "float64", "1.5"), constDef("e", "float32", "3"), constDef("f", "float64", "-2.25")}, false
	case 24:
		return []Def{constDef("a", "string", "\"h"+printable(1)+"\""), constDef("b", "bool", "true"), constDef("c", "bool", "false")}, false
	case 25:
		return []Def{constDef("g", "guid", "\"e215a946-b26f-4567-a276-13136f0a1708\"")}, false
	case 26:
		return []Def{importDef("a.bop"), importDef("b/" + ident("c") + ".bop"), structPlain("S")}, false
	case 27:
		// four kinds in one file: structure matters here, spellings are covered by the single-kind cases
		symOn = Deep
		return []Def{structPlain("A"), messagePlain("B"), unionPlain("C"), enumPlain("D")}, false
	case 28:
		return []Def{constDef("go_package", "string", "\"github.com/x/y\""), structRO("S")}, false
	case 29:
		return blockDocs(), true
	case 42:
		// end-of-line comments after fields and after closing braces
		symOn = false
		st := structPlain("S")
		symOn = true
		st.Fields[0].Trail = " note " + printable(1)
		symOn = false
		st.Trail = " end of S"
		ms := messagePlain("M")
		ms.Fields[1].Trail = " last"
		ms.Trail = " end of M"
		en := enumPlain("E")
		en.Trail = " end of E"
		return []Def{st, ms, en, structRO("T")}, true
	case 43:
		// a const followed by documented definitions (line and block doc comments)
		symOn = false
		c2 := constDef("b", "bool", "true")
		c2.Doc = " doc of b " + printable(1)
		st := structPlain("S")
		st.Doc = " doc of S"
		c3 := constDef("c", "string", "\"x\"")
		en := enumPlain("E")
		en.BlockDoc = " block doc of E "
		return []Def{constDef("a", "int32", "1"), c2, st, c3, en}, true
	case 44:
		// negative hexadecimal members of signed enums
		return []Def{
			{Kind: "enum", Name: "E", Base: "int16", Opts: []Opt{{Name: "A", Lit: []byte("-0x10"), S: -16}, {Name: "B", Lit: []byte("0x7fff"), S: 0x7fff}}},
			{Kind: "enum", Name: "F", Base: "int64", Opts: []Opt{{Name: "C", Lit: []byte("-0x8000000000000000"), S: -0x8000000000000000}, {Name: "D", Lit: []byte("-1"), S: -1}}},
		}, false
	case 45:
		// several tagged fields in one record (each tag belongs to its own field)
		symOn = false
		st := structPlain("S")
		st.Fields[0].Doc = "[tag(json:\"first" + printable(1) + "\")]"
		st.Fields[1].Doc = "[tag(json:\"second,omitempty\")]"
		ms := messagePlain("M")
		ms.Fields[0].Doc = "[tag(db:\"a\")]"
		ms.Fields[1].Doc = "[tag(db:\"b\")]"
		return []Def{st, ms}, true
	case 46:
		// doc comments in front of attributes: [flags] and [opcode(..)]
		symOn = false
		fl := enumFlags("F")
		fl.Doc = " doc of F " + printable(1)
		st := structOpInt("S")
		st.Doc = " doc of S"
		return []Def{fl, st}, true
	case 40:
		return []Def{unionDocs("U")}, true
	case 41:
		// attributes on the first and the last element of each body
		symOn = false
		st := structPlain("S")
		st.Fields[0].Depr, st.Fields[0].DeprM = true, "first"
		ms := messagePlain("M")
		symOn = true
		ms.Fields[1].Depr, ms.Fields[1].DeprM = true, "last "+printable(1)
		symOn = false
		en := enumPlain("E")
		en.Opts[0].Depr, en.Opts[0].DeprM = true, "a"
		en.Opts[1].Depr, en.Opts[1].DeprM = true, "b"
		return []Def{st, ms, en}, true
	}
	return []Def{enumTyped("E", "int64"), structOpStr("T")}, false
}

// styleFor picks a layout: line ending, indentation, one-line or multi-line,
// and how many separators are symbolic.
func styleFor(docs bool, gaps int) *Style {
	s := &Style{NL: []byte("\n"), gaps: gaps}
	if docs {
		// horizontal whitespace between the end of a block comment and the line end
		switch vstub.Choose(0, 2) {
		case 1:
			s.Trail = []byte(" ")
		case 2:
			s.Trail = []byte("\t")
		}
	}
	if !symOn {
		// pair cases: multi-line and one-line layouts only
		s.gaps = 0
		// (the one-line layout has no place for docs and attributes)
		if !docs {
			switch vstub.Choose(0, 2) {
			case 1:
				s.OneLine = true
			case 2:
				s.OneLine, s.Join = true, true
			}
		}
		return s
	}
	nstyles := 4
	if Deep && !docs {
		nstyles = 5
	}
	switch vstub.Choose(0, nstyles) {
	case 5:
		s.OneLine, s.Join = true, true
	case 4:
		s.DeprSame = docs
		if !docs {
			s.NL = []byte("\r\n")
			s.Tab = true
		}
	case 1:
		s.NL = []byte("\r\n")
	case 2:
		s.Tab = true
	case 3:
		if !docs {
			s.OneLine = true
		}
	}
	return s
}
