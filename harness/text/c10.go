package text

import (
	"github.com/200sc/bebop"

	"vh/vstub"
)

// Host schemas for C10: concrete valid texts, one per group of constructs.
var c10Hosts = []struct{ name, text string }{
	{"struct", "struct A {\n  int32 x;\n  string[] y;\n}\n"},
	{"message", "message M { 1 -> map[guid, A] m; 2 -> date d; }\n"},
	{"enum", "enum E : uint8 {\n A = 1;\n B = 0x2;\n}\n"},
	{"flags", "[flags]\nenum F : int32 { P = 1 << 2; Q = P | 1; }\n"},
	{"union", "union U { 1 -> struct S { bool b; } 2 -> message N { 1 -> byte c; } }\n"},
	{"const", "const int32 c = -5;\nconst string s = \"hi\";\n"},
	{"attrs", "// doc\n[opcode(\"abcd\")]\nreadonly struct R { [deprecated(\"x\")] float64 f; }\nimport \"i.bop\"\n"},
	{"empty-bodies", "struct A {}\nmessage B {}\nenum E {}\nunion V { 1 -> message D {} 2 -> struct C {} }\n"},
	{"no-final-newline", "enum E {}\nunion V { 1 -> message D {} 2 -> struct C {} }"},
	{"string-escapes", "const string s = \"x\\ty\\\\z\\\"q\";\nstruct D {\n  [deprecated(\"a\\nb\")]\n  int32 f;\n}\n"},
	{"multi-line-union", "union W {\n  /* c */\n  1 -> struct P {\n    int32 x;\n  }\n  // d\n  2 -> message Q {\n    1 -> P p;\n  }\n}\n"},
}

const c10Tail = "\nstruct ZzTail { int32 q; }\n"

func hasTail(f bebop.File) bool {
	ok := false
	for _, s := range f.Structs {
		ok = vstub.Or(ok, s.Name == "ZzTail")
	}
	return ok
}

func c10Positions() int {
	n := 0
	for _, h := range c10Hosts {
		n += len(h.text) + 1
	}
	return n
}

func c10Locate(i int) (int, int) {
	for h := range c10Hosts {
		if i <= len(c10Hosts[h].text) {
			return h, i
		}
		i -= len(c10Hosts[h].text) + 1
	}
	return -1, 0
}

// C10A: k arbitrary bytes spliced into a valid schema at every offset:
// ReadFile terminates without panicking, and if it reports success both on
// the text and on the text followed by one more definition, that definition
// is in the File (nothing after the splice was silently dropped).
func C10A(shard, nshards, k int) { c10Window(shard, nshards, k, false) }

// C10R: the same with k arbitrary bytes *replacing* k bytes of the schema at
// every offset (so a delimiter can disappear, not only be preceded by junk).
func C10R(shard, nshards, k int) { c10Window(shard, nshards, k, true) }

func c10Window(shard, nshards, k int, replace bool) {
	total := c10Positions()
	per := (total + nshards - 1) / nshards
	i := shard + nshards*vstub.Choose(0, per-1)
	if i >= total {
		return
	}
	h, p := c10Locate(i)
	host := c10Hosts[h].text
	t := vstub.NondetBytes(k)
	rest := p
	id := "c10.dropped/"
	if replace {
		if p+k > len(host) {
			return
		}
		rest = p + k
		id = "c10.replaced.dropped/"
	}
	x := append(append(append([]byte{}, host[:p]...), t...), host[rest:]...)
	vstub.SetLoopBudget(64*len(x) + 2048)
	_, _, e1 := bebop.ReadFile(reader(x))
	y := append(append([]byte{}, x...), c10Tail...)
	f2, _, e2 := bebop.ReadFile(reader(y))
	if e1 == nil && e2 == nil {
		vstub.Assert(id+c10Hosts[h].name, hasTail(f2))
	}
	vstub.Reach("c10a")
}

// C10B: the reader fails with a non-EOF error after k bytes - for good, or
// once (later reads deliver the rest): ReadFile must return an error (and
// not panic).
func C10B(shard, nshards int) {
	total := c10Positions()
	per := (total + nshards - 1) / nshards
	i := shard + nshards*vstub.Choose(0, per-1)
	if i >= total {
		return
	}
	h, p := c10Locate(i)
	fr := vstub.NewFragReader([]byte(c10Hosts[h].text))
	fr.Full = true
	fr.FailAt = p
	fr.Err = vstub.ErrFault
	fr.EarlyErr = vstub.Choose(0, 1) == 1
	fr.Transient = vstub.Choose(0, 1) == 1
	vstub.SetLoopBudget(64*len(c10Hosts[h].text) + 2048)
	_, _, err := bebop.ReadFile(fr)
	if p < len(c10Hosts[h].text) {
		vstub.Assert("c10.ioerr/"+c10Hosts[h].name, err != nil)
	}
	vstub.Reach("c10b")
}
