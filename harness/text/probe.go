// Package text holds the harnesses for the schema-text properties.
package text

import (
	"github.com/200sc/bebop"

	"vh/vstub"
)

func reader(b []byte) *vstub.FragReader {
	fr := vstub.NewFragReader(b)
	fr.Full = true
	return fr
}

// ProbeConcrete parses a fixed schema (engine bring-up).
func ProbeConcrete() {
	src := []byte("// doc\n[opcode(0x1234)]\nstruct A { int32 x; string[] ys; map[guid, B] m; }\nmessage B { 1 -> A a; [deprecated(\"no\")] 2 -> float32 f; }\nenum E : uint8 { X = 1; Y = 0x2; }\nunion U { 1 -> struct S { bool b; } 2 -> message M { 1 -> date d; } }\nconst int32 c = -5;\nconst string s = \"hi\";\nconst float64 fl = 1.5;\nimport \"x.bop\"\n[flags]\nenum F { P = 1 << 2; Q = P | 1; }\n")
	f, _, err := bebop.ReadFile(reader(src))
	vstub.Assert("probe.err", err == nil)
	vstub.Assert("probe.structs", len(f.Structs) == 1 && len(f.Messages) == 1 && len(f.Enums) == 2 && len(f.Unions) == 1 && len(f.Consts) == 3 && len(f.Imports) == 1)
	vstub.Assert("probe.val", f.Enums[1].Options[1].UintValue == 5 || f.Enums[1].Options[1].Value == 5)
	err = f.Validate()
	vstub.Assert("probe.validate", err == nil)
	vstub.Reach("probe")
}

// ProbeSymbolic parses a schema with a few symbolic bytes.
func ProbeSymbolic() {
	a := vstub.NondetU8()
	vstub.Assume(vstub.And(a >= 'a', a <= 'z'))
	d := vstub.NondetU8()
	vstub.Assume(vstub.And(d >= '0', d <= '9'))
	ws := vstub.NondetU8()
	vstub.Assume(vstub.Or(ws == ' ', ws == '\t'))
	src := []byte("struct A")
	src = append(src, a)
	src = append(src, " {"...)
	src = append(src, ws)
	src = append(src, "int32 x; }\nenum E { X = 1"...)
	src = append(src, d)
	src = append(src, "; }\n"...)
	f, _, err := bebop.ReadFile(reader(src))
	vstub.Assert("probe.err", err == nil)
	vstub.Assert("probe.name", len(f.Structs) == 1 && len(f.Structs[0].Name) == 2 && f.Structs[0].Name[1] == a)
	vstub.Assert("probe.val", len(f.Enums) == 1 && f.Enums[0].Options[0].UintValue == uint64(10+int(d-'0')))
	vstub.Reach("probe")
}

// ProbeUnionTail: engine bring-up for a concrete input (see DESIGN, C10).
func ProbeUnionTail() {
	x := []byte("struct A {}\nmessage B {}\nenum E {}\nunion V { 1 -> message D {} 2 -> struct C {\n} }\n\nstruct ZzTail { int32 q; }\n")
	f, _, err := bebop.ReadFile(reader(x))
	vstub.Assert("probe.err", err == nil)
	vstub.Assert("probe.tail", hasTail(f))
	vstub.Reach("probe")
}

func ProbeC10Pos() { C10A(461, c10Positions(), 1) }

func ProbeC10NL() {
	host := c10Hosts[7].text
	p := 78
	t := vstub.NondetBytes(1)
	vstub.Assume(t[0] == '\n')
	x := append(append(append([]byte{}, host[:p]...), t...), host[p:]...)
	_, _, e1 := bebop.ReadFile(reader(x))
	y := append(append([]byte{}, x...), c10Tail...)
	f2, _, e2 := bebop.ReadFile(reader(y))
	vstub.Assert("probe.e1", e1 == nil)
	vstub.Assert("probe.e2", e2 == nil)
	if e1 == nil && e2 == nil {
		vstub.Assert("probe.tail", hasTail(f2))
	}
	vstub.Reach("probe")
}

// DebugCase returns the text and expected File of case i under the loaded script.
func DebugCase(i int) ([]byte, bebop.File) {
	symBudget = 1
	if Deep {
		symBudget = 2
	}
	defs, docs := Case(i)
	st := styleFor(docs, 1)
	return Print(defs, st), Want(defs, st)
}

func DebugReader(b []byte) *vstub.FragReader { return reader(b) }
