package text

import (
	"github.com/200sc/bebop"

	"vh/vstub"
)

type baseInfo struct {
	name   string
	signed bool
	max    uint64 // largest value
	minAbs uint64 // magnitude of the smallest value (signed)
}

var bases = []baseInfo{
	{"byte", false, 0xff, 0}, {"uint8", false, 0xff, 0}, {"uint16", false, 0xffff, 0}, {"int16", true, 0x7fff, 0x8000},
	{"uint32", false, 0xffffffff, 0}, {"int32", true, 0x7fffffff, 0x80000000},
	{"uint64", false, 0xffffffffffffffff, 0}, {"int64", true, 0x7fffffffffffffff, 0x8000000000000000},
}

// hexDigits returns n symbolic hex digits and their value.
func hexDigits(n int) ([]byte, uint64) {
	b := make([]byte, n)
	v := uint64(0)
	for i := range b {
		c := vstub.NondetU8()
		var d byte
		switch vstub.Choose(0, 2) {
		case 0:
			vstub.Assume(vstub.And(c >= '0', c <= '9'))
			d = c - '0'
		case 1:
			vstub.Assume(vstub.And(c >= 'a', c <= 'f'))
			d = c - 'a' + 10
		default:
			vstub.Assume(vstub.And(c >= 'A', c <= 'F'))
			d = c - 'A' + 10
		}
		b[i] = c
		v = v<<4 | uint64(d)
	}
	return b, v
}

// enumValue parses "enum E : base { A = lit; }" and returns the option.
func enumValue(base string, flags bool, body []byte) (bebop.Enum, error) {
	var src []byte
	if flags {
		src = app(src, "[flags]\n")
	}
	src = app(src, "enum E : ", base, " {\n", body, "}\n")
	vstub.SetLoopBudget(64*len(src) + 2048)
	f, _, err := bebop.ReadFile(reader(src))
	if err != nil || len(f.Enums) != 1 {
		return bebop.Enum{}, err
	}
	return f.Enums[0], nil
}

func optVal(en bebop.Enum, i int, signed bool) uint64 {
	if signed {
		return uint64(en.Options[i].Value)
	}
	return en.Options[i].UintValue
}

// C15Lit: an enum member written as a decimal, hexadecimal or negative
// literal with symbolic digits carries exactly that value whenever it is
// representable in the base type. form: 0 decimal, 1 hex, 2 negative decimal.
func C15Lit(bi, form, k int) {
	b := bases[bi]
	var lit []byte
	var v uint64
	neg := false
	switch form {
	case 0:
		lit, v = dec(k)
	case 1:
		var h []byte
		h, v = hexDigits(k)
		lit = app(nil, "0x", h)
	case 2:
		if !b.signed {
			return
		}
		var d []byte
		d, v = dec(k)
		lit = app(nil, "-", d)
		neg = true
	case 3:
		if !b.signed {
			return
		}
		var h []byte
		h, v = hexDigits(k)
		lit = app(nil, "-0x", h)
		neg = true
	case 4:
		// leading zeros are not octal: 0 followed by decimal digits
		if k > 2 {
			k = 2
		}
		var d []byte
		d, v = dec(k)
		lit = app(nil, "0x0", d)
		v = 0
		for _, c := range d {
			v = v<<4 | uint64(c-'0')
		}
	}
	if neg {
		vstub.Assume(v <= b.minAbs)
	} else {
		vstub.Assume(v <= b.max)
	}
	en, err := enumValue(b.name, false, app(nil, " A = ", lit, ";\n"))
	vstub.Assert("c15.lit.err/"+b.name, err == nil)
	if err != nil {
		return
	}
	want := v
	if neg {
		want = -v
	}
	vstub.Assert("c15.lit.value/"+b.name, len(en.Options) == 1 && optVal(en, 0, b.signed) == want)
	vstub.Assert("c15.lit.base/"+b.name, en.SimpleType == b.name && en.Unsigned == !b.signed)
	vstub.Reach("c15lit")
}

var opText = []string{" | ", " & ", " << ", " >> "}

// baseWidth is the number of bits of a base type.
func baseWidth(b baseInfo) uint {
	switch b.max {
	case 0xff:
		return 8
	case 0xffff, 0x7fff:
		return 16
	case 0xffffffff, 0x7fffffff:
		return 32
	}
	return 64
}

// narrow reduces v to the base type: modulo 2^width, sign-extended to 64 bits
// for signed bases (the representation optVal reports).
func narrow(b baseInfo, v uint64) uint64 {
	w := baseWidth(b)
	if w == 64 {
		return v
	}
	v &= uint64(1)<<w - 1
	if b.signed {
		return uint64(int64(v<<(64-w)) >> (64 - w))
	}
	return v
}

// opApply is one operator applied in the enum's base type: operands and
// result are values of that type (Go's semantics for typed integers - a left
// shift drops the bits that leave the type, a right shift of a signed value
// is arithmetic). y < width for shifts.
func opApply(b baseInfo, op int, x, y uint64) uint64 {
	switch op {
	case 0:
		return x | y
	case 1:
		return x & y
	case 2:
		return narrow(b, x<<y)
	}
	if b.signed {
		return uint64(int64(x) >> y)
	}
	return x >> y
}

// flagOperand is one literal operand of a [flags] expression: "0x" and one
// symbolic hex digit (either case) or "1" and one symbolic decimal digit
// (10..19). (A symbolic first character of a number would fork the
// tokenizer's successor table ten ways per operand.)
func flagOperand() ([]byte, uint64) {
	if vstub.Choose(0, 1) == 1 {
		d, v := dec(1)
		return app(nil, "1", d), 10 + v
	}
	h, v := hexDigits(1)
	return app(nil, "0x", h), v
}

// flagCount is a literal used as a shift count: 0x0-0xf, and for the wider
// bases also 0x10-0x1f and 0x30-0x3f; always below the width of the base.
func flagCount(b baseInfo) ([]byte, uint64) {
	w := baseWidth(b)
	form := 0
	if w >= 32 {
		form = vstub.Choose(0, int(w/32))
	}
	h, v := hexDigits(1)
	var lit []byte
	switch form {
	case 0:
		lit = app(nil, "0x", h)
	case 1:
		lit, v = app(nil, "0x1", h), 0x10+v
	default:
		lit, v = app(nil, "0x3", h), 0x30+v
	}
	vstub.Assume(v < uint64(w))
	return lit, v
}

// C15Flags: [flags] members are the value of their expression, computed in
// the enum's base type. Expressions are fully parenthesised (the property
// does not fix a precedence), operands are literals with a symbolic digit
// and earlier members, shift counts are below the width of the base type.
// Intermediate results may leave the base type: the reference then keeps the
// low bits, as arithmetic in that type does (see DESIGN, C15).
func C15Flags(bi, shape int) {
	b := bases[bi]
	if b.name == "byte" {
		return // same base as uint8
	}
	op1 := vstub.Choose(0, 3)
	op2 := vstub.Choose(0, 3)
	operand := func(count bool) ([]byte, uint64) {
		if count {
			return flagCount(b)
		}
		return flagOperand()
	}
	x, xv := flagOperand()
	y, yv := operand(op1 >= 2)
	z, zv := operand(op2 >= 2 && shape != 3)
	w := uint64(baseWidth(b))
	var body []byte
	var want []uint64
	a := xv
	body = app(body, " A = ", x, ";\n")
	want = append(want, a)
	switch shape {
	case 0: // B = A op y
		r := opApply(b, op1, a, yv)
		body = app(body, " B = A", opText[op1], y, ";\n")
		want = append(want, r)
	case 1: // B = (A op1 y) op2 z
		r1 := opApply(b, op1, a, yv)
		r := opApply(b, op2, r1, zv)
		body = app(body, " B = (A", opText[op1], y, ")", opText[op2], z, ";\n")
		want = append(want, r)
	case 2: // B = y op1 (A op2 z)   (a count is below the width and not negative)
		r1 := opApply(b, op2, a, zv)
		if op1 >= 2 {
			vstub.Assume(r1 < w)
		}
		r := opApply(b, op1, yv, r1)
		body = app(body, " B = ", y, opText[op1], "(A", opText[op2], z, ");\n")
		want = append(want, r)
	case 3: // B = y; C = A op1 B; D = (C) op2 A
		body = app(body, " B = ", y, ";\n")
		want = append(want, yv)
		c := opApply(b, op1, a, yv)
		body = app(body, " C = A", opText[op1], "B;\n")
		want = append(want, c)
		if op2 >= 2 {
			vstub.Assume(a < w)
		}
		d := opApply(b, op2, c, a)
		body = app(body, " D = (C)", opText[op2], "A;\n")
		want = append(want, d)
	}
	en, err := enumValue(b.name, true, body)
	vstub.Assert("c15.flags.err/"+b.name, err == nil)
	if err != nil {
		return
	}
	ok := len(en.Options) == len(want)
	if ok {
		for i := range want {
			ok = vstub.And(ok, optVal(en, i, b.signed) == want[i])
		}
	}
	vstub.Assert("c15.flags.value/"+b.name, ok)
	vstub.Reach("c15flags")
}

// C15Op: opcodes. A 4-character string opcode is its little-endian u32; an
// integer opcode (decimal or hex) is its value.
func C15Op(form int) {
	var lit []byte
	var want uint32
	switch form {
	case 0:
		s := printable(4)
		lit = []byte("\"" + s + "\"")
		want = uint32(s[0]) | uint32(s[1])<<8 | uint32(s[2])<<16 | uint32(s[3])<<24
	case 1:
		d, v := dec(4)
		lit, want = d, uint32(v)
	default:
		h, v := hexDigits(3)
		lit, want = app(nil, "0x", h, "0"), uint32(v<<4)
	}
	kind := vstub.Choose(0, 2)
	var src []byte
	src = app(src, "[opcode(", lit, ")]\n")
	switch kind {
	case 0:
		src = app(src, "struct S { int32 x; }\n")
	case 1:
		src = app(src, "message S { 1 -> int32 x; }\n")
	default:
		src = app(src, "union S { 1 -> struct T { int32 x; } }\n")
	}
	vstub.SetLoopBudget(64*len(src) + 2048)
	f, _, err := bebop.ReadFile(reader(src))
	vstub.Assert("c15.op.err", err == nil)
	if err != nil {
		return
	}
	var got uint32
	switch kind {
	case 0:
		got = f.Structs[0].OpCode
	case 1:
		got = f.Messages[0].OpCode
	default:
		got = f.Unions[0].OpCode
	}
	vstub.Assert("c15.op.value", got == want)
	vstub.Reach("c15op")
}

// VH_C15 entry points (sharded by base type).
func c15Lits(bi int, thorough bool) {
	form := vstub.Choose(0, 4)
	maxK := 3
	if form == 1 || form == 3 || form == 4 {
		maxK = 2
	}
	if thorough {
		maxK += 2
	}
	k := vstub.Choose(1, maxK)
	C15Lit(bi, form, k)
}
