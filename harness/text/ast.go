package text

import (
	"github.com/200sc/bebop"

	"vh/vstub"
)

// A small schema AST of our own (no code shared with the repository): it is
// printed to text by Print and turned into the File the parser is expected
// to produce by Want.

type Ty struct {
	Simple string
	Arr    *Ty
	MapK   string
	MapV   *Ty
	// ArrayKeyword prints array[T] instead of T[]
	ArrayKeyword bool
}

type Fld struct {
	Name  string
	Ty    Ty
	Index []byte // message index literal (digits, possibly symbolic)
	IdxV  uint8  // its value
	Depr  bool
	DeprM string
	Doc   string // one "//" doc line above the field ("" = none)
	// BlockLines is a "/* */" doc block above the field spanning these lines
	// (joined by the style's line ending and the body indentation)
	BlockLines []string
	Trail      string // end-of-line "//" comment after the field ("" = none)
}

type Opt struct {
	Name       string
	Lit        []byte // literal text of the value (possibly symbolic digits)
	U          uint64 // expected value when the enum is unsigned
	S          int64  // expected value when signed
	Depr       bool
	DeprM      string
	Doc        string
	BlockLines []string
}

type Def struct {
	Kind     string // enum | struct | message | union | const | import
	Name     string
	Doc      string // "//" doc line
	BlockDoc string // "/* */" doc block
	Base     string // enum base type ("" = default)
	Flags    bool
	Opts     []Opt
	ReadOnly bool
	OpLit    []byte // opcode literal text: digits/hex or a quoted 4-char string
	OpV      uint32
	Fields   []Fld
	Branches []Br
	Trail    string // "//" comment after the closing brace, on the same line
	CType    string // const type
	CLit     []byte // const literal text
	Import   string
}

type Br struct {
	Index []byte
	IdxV  uint8
	Def   Def
	Depr  bool
	DeprM string
}

// Style decides the layout of the printed text.
type Style struct {
	OneLine bool   // definitions on one line
	// Join (with OneLine): the definitions share one line, separated by a
	// space (a text ReadFile need not accept; where it does, it means what
	// it says)
	Join bool
	NL      []byte // line ending
	// Trail is horizontal whitespace between a block comment's end and the
	// line end ("" = none)
	Trail []byte
	gaps    int    // symbolic separators still available
	Tab     bool   // indent with tabs
	// DeprSame puts a [deprecated("..")] attribute on the same line as the
	// element it annotates instead of on a line of its own
	DeprSame bool
}

// sep is mandatory horizontal whitespace: the first few are a symbolic byte
// out of {' ', '\t'}, the rest a space.
func (s *Style) sep() []byte {
	if s.gaps > 0 {
		s.gaps--
		b := vstub.NondetU8()
		vstub.Assume(vstub.Or(b == ' ', b == '\t'))
		return []byte{b}
	}
	return []byte{' '}
}

func (s *Style) indent() []byte {
	if s.OneLine {
		return []byte{' '}
	}
	if s.Tab {
		return []byte{'\t'}
	}
	return []byte("    ")
}

func (s *Style) eol() []byte {
	if s.OneLine {
		return []byte{' '}
	}
	return s.NL
}

func app(b []byte, parts ...interface{}) []byte {
	for _, p := range parts {
		switch x := p.(type) {
		case string:
			b = append(b, x...)
		case []byte:
			b = append(b, x...)
		case byte:
			b = append(b, x)
		}
	}
	return b
}

func (t Ty) print(b []byte) []byte {
	switch {
	case t.Arr != nil:
		if t.ArrayKeyword {
			b = app(b, "array[")
			b = t.Arr.print(b)
			return app(b, "]")
		}
		b = t.Arr.print(b)
		return app(b, "[]")
	case t.MapV != nil:
		b = app(b, "map[", t.MapK, ", ")
		b = t.MapV.print(b)
		return app(b, "]")
	}
	return app(b, t.Simple)
}

func (t Ty) want() bebop.FieldType {
	switch {
	case t.Arr != nil:
		e := t.Arr.want()
		return bebop.FieldType{Array: &e}
	case t.MapV != nil:
		return bebop.FieldType{Map: &bebop.MapType{Key: t.MapK, Value: t.MapV.want()}}
	}
	return bebop.FieldType{Simple: t.Simple}
}

// blockText joins the lines of a multi-line block comment the way they are
// printed: line ending, then the indentation of the body.
func blockText(lines []string, s *Style, ind []byte) string {
	out := ""
	for i, l := range lines {
		if i > 0 {
			out += string(s.NL) + string(ind)
		}
		out += l
	}
	return out
}

func printBlock(b []byte, s *Style, ind []byte, lines []string) []byte {
	if len(lines) == 0 || s.OneLine {
		return b
	}
	return app(b, ind, "/*", blockText(lines, s, ind), "*/", s.Trail, s.NL)
}

func commentOf(block []string, doc string, s *Style, ind []byte) string {
	c := ""
	if len(block) > 0 {
		c = blockText(block, s, ind)
	}
	if doc != "" {
		if c != "" {
			c += "\n"
		}
		c += doc
	}
	return c
}

// trail renders an end-of-line comment (multi-line layouts only).
func trail(s *Style, text string) []byte {
	if text == "" || s.OneLine {
		return nil
	}
	return app(nil, " //", text)
}

func printDepr(b []byte, s *Style, ind []byte, msg string) []byte {
	if s.DeprSame {
		return b
	}
	return app(b, ind, "[deprecated(\"", msg, "\")]", s.NL)
}

// deprInline is the attribute text when it shares the line with its element.
func deprInline(s *Style, depr bool, msg string) []byte {
	if !depr || !s.DeprSame || s.OneLine {
		return nil
	}
	return app(nil, "[deprecated(\"", msg, "\")] ")
}

func (d Def) print(b []byte, s *Style, ind []byte) []byte {
	if d.BlockDoc != "" {
		b = app(b, ind, "/*", d.BlockDoc, "*/", s.Trail, s.NL)
	}
	if d.Doc != "" {
		b = app(b, ind, "//", d.Doc, s.NL)
	}
	if d.OpLit != nil {
		b = app(b, ind, "[opcode(", d.OpLit, ")]", s.NL)
	}
	if d.Flags {
		b = app(b, ind, "[flags]", s.NL)
	}
	inner := app(append([]byte{}, ind...), s.indent())
	switch d.Kind {
	case "import":
		return app(b, ind, "import", s.sep(), "\"", d.Import, "\"", s.NL)
	case "const":
		return app(b, ind, "const", s.sep(), d.CType, s.sep(), d.Name, " = ", d.CLit, ";", s.NL)
	case "enum":
		b = app(b, ind, "enum", s.sep(), d.Name)
		if d.Base != "" {
			b = app(b, " : ", d.Base)
		}
		b = app(b, " {", s.eol())
		for _, o := range d.Opts {
			b = printBlock(b, s, inner, o.BlockLines)
			if o.Doc != "" && !s.OneLine {
				b = app(b, inner, "//", o.Doc, s.NL)
			}
			if o.Depr && !s.OneLine {
				b = printDepr(b, s, inner, o.DeprM)
			}
			b = app(b, inner, deprInline(s, o.Depr, o.DeprM), o.Name, " = ", o.Lit, ";", s.eol())
		}
		return app(b, ind, "}", trail(s, d.Trail), s.NL)
	case "struct":
		if d.ReadOnly {
			b = app(b, ind, "readonly", s.sep(), "struct", s.sep(), d.Name, " {", s.eol())
		} else {
			b = app(b, ind, "struct", s.sep(), d.Name, " {", s.eol())
		}
		for _, f := range d.Fields {
			b = printBlock(b, s, inner, f.BlockLines)
			if f.Doc != "" && !s.OneLine {
				b = app(b, inner, "//", f.Doc, s.NL)
			}
			if f.Depr && !s.OneLine {
				b = printDepr(b, s, inner, f.DeprM)
			}
			b = app(b, inner, deprInline(s, f.Depr, f.DeprM))
			b = f.Ty.print(b)
			b = app(b, s.sep(), f.Name, ";", trail(s, f.Trail), s.eol())
		}
		return app(b, ind, "}", trail(s, d.Trail), s.NL)
	case "message":
		b = app(b, ind, "message", s.sep(), d.Name, " {", s.eol())
		for _, f := range d.Fields {
			b = printBlock(b, s, inner, f.BlockLines)
			if f.Doc != "" && !s.OneLine {
				b = app(b, inner, "//", f.Doc, s.NL)
			}
			if f.Depr && !s.OneLine {
				b = printDepr(b, s, inner, f.DeprM)
			}
			b = app(b, inner, deprInline(s, f.Depr, f.DeprM), f.Index, " -> ")
			b = f.Ty.print(b)
			b = app(b, s.sep(), f.Name, ";", trail(s, f.Trail), s.eol())
		}
		return app(b, ind, "}", trail(s, d.Trail), s.NL)
	case "union":
		b = app(b, ind, "union", s.sep(), d.Name, " {", s.eol())
		for _, br := range d.Branches {
			bd := br.Def
			if bd.Doc != "" && !s.OneLine {
				b = app(b, inner, "//", bd.Doc, s.NL)
			}
			bd.Doc = ""
			if br.Depr && !s.OneLine {
				b = printDepr(b, s, inner, br.DeprM)
			}
			b = app(b, inner, deprInline(s, br.Depr, br.DeprM), br.Index, " -> ")
			// the branch definition follows on the same line
			sub := bd.print(nil, s, inner)
			// strip the leading indentation of the nested definition
			b = app(b, sub[len(inner):])
		}
		return app(b, ind, "}", s.NL)
	}
	return b
}

// Print renders the schema.
func Print(defs []Def, s *Style) []byte {
	var b []byte
	for i, d := range defs {
		if i > 0 && !s.OneLine {
			b = app(b, s.NL)
		}
		b = d.print(b, s, nil)
		if s.Join && s.OneLine && i+1 < len(defs) && len(b) >= len(s.NL) {
			b = app(b[:len(b)-len(s.NL)], " ")
		}
	}
	return b
}

func isUnsignedBase(base string) bool {
	switch base {
	case "", "byte", "uint8", "uint16", "uint32", "uint64":
		return true
	}
	return false
}

func docOf(d Def) string {
	c := ""
	if d.BlockDoc != "" {
		c = d.BlockDoc
	}
	if d.Doc != "" {
		if c != "" {
			c += "\n"
		}
		c += d.Doc
	}
	return c
}

// tagsOf: a doc line of the form [tag(key:"value")] is a field tag as well as a comment.
func tagsOf(doc string) []bebop.Tag {
	const pre, mid, post = "[tag(", ":\"", "\")]"
	if len(doc) < len(pre)+len(mid)+len(post)+1 || doc[:len(pre)] != pre || doc[len(doc)-len(post):] != post {
		return nil
	}
	body := doc[len(pre) : len(doc)-len(post)]
	for i := 0; i+len(mid) <= len(body); i++ {
		if body[i:i+len(mid)] == mid {
			return []bebop.Tag{{Key: body[:i], Value: body[i+len(mid):]}}
		}
	}
	return nil
}

func (d Def) wantStruct(s *Style, inner []byte) bebop.Struct {
	st := bebop.Struct{Name: d.Name, Comment: docOf(d), OpCode: d.OpV, ReadOnly: d.ReadOnly}
	for _, f := range d.Fields {
		st.Fields = append(st.Fields, bebop.Field{Name: f.Name, FieldType: f.Ty.want(), Comment: commentOf(f.BlockLines, f.Doc, s, inner), Deprecated: f.Depr, DeprecatedMessage: f.DeprM, Tags: tagsOf(f.Doc)})
	}
	return st
}

func (d Def) wantMessage(s *Style, inner []byte) bebop.Message {
	m := bebop.Message{Name: d.Name, Comment: docOf(d), OpCode: d.OpV, Fields: map[uint8]bebop.Field{}}
	for _, f := range d.Fields {
		m.Fields[f.IdxV] = bebop.Field{Name: f.Name, FieldType: f.Ty.want(), Comment: commentOf(f.BlockLines, f.Doc, s, inner), Deprecated: f.Depr, DeprecatedMessage: f.DeprM, Tags: tagsOf(f.Doc)}
	}
	return m
}

// Want builds the File the text printed in style s denotes.
func Want(defs []Def, s *Style) bebop.File {
	var f bebop.File
	inner := s.indent()
	inner2 := app(append([]byte{}, inner...), s.indent())
	for _, d := range defs {
		switch d.Kind {
		case "import":
			f.Imports = append(f.Imports, d.Import)
		case "const":
			f.Consts = append(f.Consts, bebop.Const{SimpleType: d.CType, Name: d.Name, Value: string(d.CLit), Comment: docOf(d)})
			if d.Name == "go_package" && d.CType == "string" && len(d.CLit) >= 2 {
				f.GoPackage = string(d.CLit[1 : len(d.CLit)-1])
			}
		case "enum":
			en := bebop.Enum{Name: d.Name, Comment: docOf(d), SimpleType: d.Base, Unsigned: isUnsignedBase(d.Base)}
			if d.Base == "" {
				en.SimpleType = "uint32"
			}
			for _, o := range d.Opts {
				eo := bebop.EnumOption{Name: o.Name, Comment: commentOf(o.BlockLines, o.Doc, s, inner), Deprecated: o.Depr, DeprecatedMessage: o.DeprM}
				if en.Unsigned {
					eo.UintValue = o.U
				} else {
					eo.Value = o.S
				}
				en.Options = append(en.Options, eo)
			}
			f.Enums = append(f.Enums, en)
		case "struct":
			f.Structs = append(f.Structs, d.wantStruct(s, inner))
		case "message":
			f.Messages = append(f.Messages, d.wantMessage(s, inner))
		case "union":
			u := bebop.Union{Name: d.Name, Comment: docOf(d), OpCode: d.OpV, Fields: map[uint8]bebop.UnionField{}}
			for _, br := range d.Branches {
				uf := bebop.UnionField{Deprecated: br.Depr, DeprecatedMessage: br.DeprM}
				if br.Def.Kind == "struct" {
					st := br.Def.wantStruct(s, inner2)
					uf.Struct = &st
				} else {
					m := br.Def.wantMessage(s, inner2)
					uf.Message = &m
				}
				u.Fields[br.IdxV] = uf
			}
			f.Unions = append(f.Unions, u)
		}
	}
	return f
}

// ---------- equality on Files (Go's == on strings/ints builds terms in the engine) ----------

type eqAcc struct {
	ok       bool
	comments bool // compare comments too
}

func (a *eqAcc) and(c bool) { a.ok = vstub.And(a.ok, c) }

func (a *eqAcc) ty(x, y bebop.FieldType) {
	a.and(x.Simple == y.Simple)
	if (x.Array == nil) != (y.Array == nil) || (x.Map == nil) != (y.Map == nil) {
		a.ok = false
		return
	}
	if x.Array != nil {
		a.ty(*x.Array, *y.Array)
	}
	if x.Map != nil {
		a.and(x.Map.Key == y.Map.Key)
		a.ty(x.Map.Value, y.Map.Value)
	}
}

func (a *eqAcc) field(x, y bebop.Field) {
	a.and(x.Name == y.Name)
	a.ty(x.FieldType, y.FieldType)
	a.and(x.Deprecated == y.Deprecated)
	a.and(x.DeprecatedMessage == y.DeprecatedMessage)
	if a.comments {
		// tags come from comments of a special form
		if len(x.Tags) != len(y.Tags) {
			a.ok = false
		} else {
			for i := range x.Tags {
				a.and(x.Tags[i].Key == y.Tags[i].Key)
				a.and(x.Tags[i].Value == y.Tags[i].Value)
				a.and(x.Tags[i].Boolean == y.Tags[i].Boolean)
			}
		}
		a.and(x.Comment == y.Comment)
	}
}

func (a *eqAcc) strct(x, y bebop.Struct) {
	a.and(x.Name == y.Name)
	a.and(x.OpCode == y.OpCode)
	a.and(x.ReadOnly == y.ReadOnly)
	if a.comments {
		a.and(x.Comment == y.Comment)
	}
	if len(x.Fields) != len(y.Fields) {
		a.ok = false
		return
	}
	for i := range x.Fields {
		a.field(x.Fields[i], y.Fields[i])
	}
}

func (a *eqAcc) message(x, y bebop.Message) {
	a.and(x.Name == y.Name)
	a.and(x.OpCode == y.OpCode)
	if a.comments {
		a.and(x.Comment == y.Comment)
	}
	if len(x.Fields) != len(y.Fields) {
		a.ok = false
		return
	}
	for k, fx := range x.Fields {
		fy, has := y.Fields[k]
		if !has {
			a.ok = false
			return
		}
		a.field(fx, fy)
	}
}

// FileEq compares two Files; comments are compared only if withComments.
func FileEq(x, y bebop.File, withComments bool) bool {
	a := &eqAcc{ok: true, comments: withComments}
	if len(x.Structs) != len(y.Structs) || len(x.Messages) != len(y.Messages) || len(x.Enums) != len(y.Enums) ||
		len(x.Unions) != len(y.Unions) || len(x.Consts) != len(y.Consts) || len(x.Imports) != len(y.Imports) {
		return false
	}
	a.and(x.GoPackage == y.GoPackage)
	for i := range x.Imports {
		a.and(x.Imports[i] == y.Imports[i])
	}
	for i := range x.Structs {
		a.strct(x.Structs[i], y.Structs[i])
	}
	for i := range x.Messages {
		a.message(x.Messages[i], y.Messages[i])
	}
	for i := range x.Enums {
		ex, ey := x.Enums[i], y.Enums[i]
		a.and(ex.Name == ey.Name)
		a.and(ex.SimpleType == ey.SimpleType)
		a.and(ex.Unsigned == ey.Unsigned)
		if a.comments {
			a.and(ex.Comment == ey.Comment)
		}
		if len(ex.Options) != len(ey.Options) {
			return false
		}
		for j := range ex.Options {
			ox, oy := ex.Options[j], ey.Options[j]
			a.and(ox.Name == oy.Name)
			a.and(ox.Value == oy.Value)
			a.and(ox.UintValue == oy.UintValue)
			a.and(ox.Deprecated == oy.Deprecated)
			a.and(ox.DeprecatedMessage == oy.DeprecatedMessage)
			if a.comments {
				a.and(ox.Comment == oy.Comment)
			}
		}
	}
	for i := range x.Unions {
		ux, uy := x.Unions[i], y.Unions[i]
		a.and(ux.Name == uy.Name)
		a.and(ux.OpCode == uy.OpCode)
		if a.comments {
			a.and(ux.Comment == uy.Comment)
		}
		if len(ux.Fields) != len(uy.Fields) {
			return false
		}
		for k, fx := range ux.Fields {
			fy, has := uy.Fields[k]
			if !has {
				return false
			}
			a.and(fx.Deprecated == fy.Deprecated)
			a.and(fx.DeprecatedMessage == fy.DeprecatedMessage)
			if (fx.Struct == nil) != (fy.Struct == nil) || (fx.Message == nil) != (fy.Message == nil) {
				return false
			}
			if fx.Struct != nil {
				a.strct(*fx.Struct, *fy.Struct)
			}
			if fx.Message != nil {
				a.message(*fx.Message, *fy.Message)
			}
		}
	}
	for i := range x.Consts {
		cx, cy := x.Consts[i], y.Consts[i]
		a.and(cx.Name == cy.Name)
		a.and(cx.SimpleType == cy.SimpleType)
		a.and(cx.Value == cy.Value)
		if a.comments {
			a.and(cx.Comment == cy.Comment)
		}
	}
	return a.ok
}
