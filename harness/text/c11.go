package text

import (
	"github.com/200sc/bebop"

	"vh/vstub"
)

var kindNames = []string{"flags-enum", "enum", "opcode-struct", "readonly-struct", "struct", "opcode-message", "opcode-union", "const", "import", "typed-enum"}

var singleNames = []string{"enum", "enum-byte", "enum-uint8", "enum-uint16", "enum-int16", "enum-uint32", "enum-int32", "enum-uint64", "enum-int64",
	"flags-enum", "enum-docs", "struct", "struct-types", "readonly-struct", "struct-opcode-int", "struct-opcode-str", "struct-docs",
	"message", "message-opcode", "message-docs", "union", "union-opcode", "const-int", "const-float", "const-string-bool", "const-guid",
	"imports", "four-kinds", "go-package", "block-docs-in-bodies"}

// CaseName names schema case i (used in assertion ids, so that a finding is
// identified by the construct and not by the input).
func CaseName(i int) string {
	if i == 40 {
		return "union-docs-deprecated"
	}
	if i == 41 {
		return "deprecated-first-and-last"
	}
	if i == 42 {
		return "trailing-comments"
	}
	if i == 43 {
		return "const-then-docs"
	}
	if i == 44 {
		return "enum-negative-hex"
	}
	if i == 45 {
		return "tagged-fields"
	}
	if i == 46 {
		return "docs-before-flags-enum-and-opcode"
	}
	if i >= 30 && i < 40 {
		return "type:" + deepTypes[i-30].name
	}
	if i >= nSingles {
		p := i - nSingles
		return kindNames[p/nKinds] + ">" + kindNames[p%nKinds]
	}
	return singleNames[i]
}

// pickCase selects the case of this path for a shard.
func pickCase(shard, nshards int) int {
	per := (NCases + nshards - 1) / nshards
	return shard + nshards*vstub.Choose(0, per-1)
}

// C11: the parsed File states exactly what the text says.
func C11(shard, nshards int) {
	i := pickCase(shard, nshards)
	if i >= NCases {
		return
	}
	cls := CaseName(i)
	symBudget = 1
	if Deep {
		symBudget = 2
	}
	defs, docs := Case(i)
	st := styleFor(docs, 1)
	src := Print(defs, st)
	want := Want(defs, st)
	vstub.SetLoopBudget(64*len(src) + 1024)
	got, _, err := bebop.ReadFile(reader(src))
	if st.Join && err != nil {
		// several definitions on one line: the property does not say such a
		// text is accepted, only what it means when it is
		return
	}
	vstub.Assert("c11.err/"+cls, err == nil)
	if err != nil {
		return
	}
	// where an end-of-line comment ends up is not pinned down by the property:
	// that case is compared without comments
	vstub.Assert("c11.file/"+cls, FileEq(got, want, cls != "trailing-comments"))
	vstub.Reach("c11")
}

// C16: formatting an accepted text does not change what it means.
func C16(shard, nshards int) {
	i := pickCase(shard, nshards)
	if i >= NCases {
		return
	}
	cls := CaseName(i)
	symBudget = 1
	if Deep {
		symBudget = 2
	}
	defs, docs := Case(i)
	st := styleFor(docs, 1)
	src := Print(defs, st)
	vstub.SetLoopBudget(64*len(src) + 1024)
	f1, _, e1 := bebop.ReadFile(reader(src))
	if e1 != nil {
		vstub.Reach("c16.rejected")
		return
	}
	sink := &vstub.Sink{}
	err := bebop.Format(reader(src), sink)
	vstub.Assert("c16.format.err/"+cls, err == nil)
	f2, _, e2 := bebop.ReadFile(reader(sink.Data))
	vstub.Assert("c16.reparse.err/"+cls, e2 == nil)
	if e2 == nil {
		vstub.Assert("c16.same/"+cls, FileEq(f1, f2, false))
	}
	vstub.Reach("c16")
}

// C17: formatting the formatter's output changes nothing.
func C17(shard, nshards int) {
	i := pickCase(shard, nshards)
	if i >= NCases {
		return
	}
	cls := CaseName(i)
	symBudget = 1
	if Deep {
		symBudget = 2
	}
	defs, docs := Case(i)
	st := styleFor(docs, 1)
	src := Print(defs, st)
	vstub.SetLoopBudget(64*len(src) + 1024)
	_, _, e1 := bebop.ReadFile(reader(src))
	if e1 != nil {
		vstub.Reach("c17.rejected")
		return
	}
	s1 := &vstub.Sink{}
	err := bebop.Format(reader(src), s1)
	if err != nil {
		vstub.Reach("c17.format-failed")
		return
	}
	s2 := &vstub.Sink{}
	err = bebop.Format(reader(s1.Data), s2)
	vstub.Assert("c17.err/"+cls, err == nil)
	vstub.Assert("c17.idempotent/"+cls, vstub.BytesEq(s1.Data, s2.Data))
	vstub.Reach("c17")
}

var keywordNames = []string{"readonly", "message", "struct", "enum", "deprecated", "opcode", "map", "array", "union", "const", "inf", "nan", "true", "false", "import", "flags"}

// C11Keyword: a name that happens to be a keyword of the language. The
// property does not say such a schema is accepted; if it is, the File has the
// element under that name - nothing is dropped without an error.
func C11Keyword(site int) {
	kw := keywordNames[vstub.Choose(0, len(keywordNames)-1)]
	var src []byte
	switch site {
	case 0:
		src = app(nil, "enum E {\n A = 1;\n ", kw, " = 2;\n B = 3;\n}\n")
	case 1:
		src = app(nil, "struct S {\n int32 a;\n string ", kw, ";\n bool b;\n}\n")
	case 2:
		src = app(nil, "message M {\n 1 -> int32 a;\n 2 -> string ", kw, ";\n 3 -> bool b;\n}\n")
	case 3:
		src = app(nil, "union U {\n 1 -> struct A { }\n 2 -> struct ", kw, " { }\n 3 -> struct B { }\n}\n")
	default:
		src = app(nil, "struct A { }\nstruct ", kw, " { int32 x; }\nstruct B { }\n")
	}
	vstub.SetLoopBudget(64*len(src) + 1024)
	f, _, err := bebop.ReadFile(reader(src))
	if err != nil {
		vstub.Reach("c11kw")
		return
	}
	ok := false
	switch site {
	case 0:
		ok = len(f.Enums) == 1 && len(f.Enums[0].Options) == 3 && f.Enums[0].Options[1].Name == kw && f.Enums[0].Options[2].UintValue == 3
	case 1:
		ok = len(f.Structs) == 1 && len(f.Structs[0].Fields) == 3 && f.Structs[0].Fields[1].Name == kw
	case 2:
		ok = len(f.Messages) == 1 && len(f.Messages[0].Fields) == 3 && f.Messages[0].Fields[2].Name == kw
	case 3:
		ok = len(f.Unions) == 1 && len(f.Unions[0].Fields) == 3 && f.Unions[0].Fields[2].Struct != nil && f.Unions[0].Fields[2].Struct.Name == kw
	default:
		ok = len(f.Structs) == 3 && f.Structs[1].Name == kw
	}
	vstub.Assert("c11.keyword-name/"+[]string{"enum-member", "struct-field", "message-field", "union-branch", "definition"}[site], ok)
	vstub.Reach("c11kw")
}
