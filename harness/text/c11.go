package text

import (
	"github.com/200sc/bebop"

	"vh/vstub"
)

var kindNames = []string{"flags-enum", "enum", "opcode-struct", "readonly-struct", "struct", "opcode-message", "opcode-union", "const", "import", "typed-enum"}

var singleNames = []string{"enum", "enum-byte", "enum-uint8", "enum-uint16", "enum-int16", "enum-uint32", "enum-int32", "enum-uint64", "enum-int64",
	"flags-enum", "enum-docs", "struct", "struct-types", "readonly-struct", "struct-opcode-int", "struct-opcode-str", "struct-docs",
	"message", "message-opcode", "message-docs", "union", "union-opcode", "const-int", "const-float", "const-string-bool", "const-guid",
	"imports", "four-kinds", "go-package", "block-docs-in-bodies"}

// CaseName names schema case i (used in assertion ids, so that a finding is
// identified by the construct and not by the input).
func CaseName(i int) string {
	if i == 40 {
		return "union-docs-deprecated"
	}
	if i == 41 {
		return "deprecated-first-and-last"
	}
	if i == 42 {
		return "trailing-comments"
	}
	if i == 43 {
		return "const-then-docs"
	}
	if i == 44 {
		return "enum-negative-hex"
	}
	if i >= 30 && i < 40 {
		return "type:" + deepTypes[i-30].name
	}
	if i >= nSingles {
		p := i - nSingles
		return kindNames[p/nKinds] + ">" + kindNames[p%nKinds]
	}
	return singleNames[i]
}

// pickCase selects the case of this path for a shard.
func pickCase(shard, nshards int) int {
	per := (NCases + nshards - 1) / nshards
	return shard + nshards*vstub.Choose(0, per-1)
}

// C11: the parsed File states exactly what the text says.
func C11(shard, nshards int) {
	i := pickCase(shard, nshards)
	if i >= NCases {
		return
	}
	cls := CaseName(i)
	symBudget = 1
	if Deep {
		symBudget = 2
	}
	defs, docs := Case(i)
	st := styleFor(docs, 1)
	src := Print(defs, st)
	want := Want(defs, st)
	vstub.SetLoopBudget(64*len(src) + 1024)
	got, _, err := bebop.ReadFile(reader(src))
	if st.Join && err != nil {
		// several definitions on one line: the property does not say such a
		// text is accepted, only what it means when it is
		return
	}
	vstub.Assert("c11.err/"+cls, err == nil)
	if err != nil {
		return
	}
	// where an end-of-line comment ends up is not pinned down by the property:
	// that case is compared without comments
	vstub.Assert("c11.file/"+cls, FileEq(got, want, cls != "trailing-comments"))
	vstub.Reach("c11")
}

// C16: formatting an accepted text does not change what it means.
func C16(shard, nshards int) {
	i := pickCase(shard, nshards)
	if i >= NCases {
		return
	}
	cls := CaseName(i)
	symBudget = 1
	if Deep {
		symBudget = 2
	}
	defs, docs := Case(i)
	st := styleFor(docs, 1)
	src := Print(defs, st)
	vstub.SetLoopBudget(64*len(src) + 1024)
	f1, _, e1 := bebop.ReadFile(reader(src))
	if e1 != nil {
		vstub.Reach("c16.rejected")
		return
	}
	sink := &vstub.Sink{}
	err := bebop.Format(reader(src), sink)
	vstub.Assert("c16.format.err/"+cls, err == nil)
	f2, _, e2 := bebop.ReadFile(reader(sink.Data))
	vstub.Assert("c16.reparse.err/"+cls, e2 == nil)
	if e2 == nil {
		vstub.Assert("c16.same/"+cls, FileEq(f1, f2, false))
	}
	vstub.Reach("c16")
}

// C17: formatting the formatter's output changes nothing.
func C17(shard, nshards int) {
	i := pickCase(shard, nshards)
	if i >= NCases {
		return
	}
	cls := CaseName(i)
	symBudget = 1
	if Deep {
		symBudget = 2
	}
	defs, docs := Case(i)
	st := styleFor(docs, 1)
	src := Print(defs, st)
	vstub.SetLoopBudget(64*len(src) + 1024)
	_, _, e1 := bebop.ReadFile(reader(src))
	if e1 != nil {
		vstub.Reach("c17.rejected")
		return
	}
	s1 := &vstub.Sink{}
	err := bebop.Format(reader(src), s1)
	if err != nil {
		vstub.Reach("c17.format-failed")
		return
	}
	s2 := &vstub.Sink{}
	err = bebop.Format(reader(s1.Data), s2)
	vstub.Assert("c17.err/"+cls, err == nil)
	vstub.Assert("c17.idempotent/"+cls, vstub.BytesEq(s1.Data, s2.Data))
	vstub.Reach("c17")
}
