package main

import (
	"fmt"
	"os"
	"strconv"

	"github.com/200sc/bebop"
	"vh/text"
	"vh/vstub"
)

func main() {
	i, _ := strconv.Atoi(os.Args[1])
	var sc []uint64
	for _, a := range os.Args[2:] {
		v, _ := strconv.ParseUint(a, 10, 64)
		sc = append(sc, v)
	}
	vstub.Load(sc)
	src, want := text.DebugCase(i)
	fmt.Printf("%q\n%s\n", src, src)
	got, _, err := bebop.ReadFile(text.DebugReader(src))
	fmt.Println("err:", err)
	fmt.Printf("GOT  %+v\n", got)
	fmt.Printf("WANT %+v\n", want)
}
