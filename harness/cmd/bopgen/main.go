// bopgen runs the repository's real ReadFile + Generate over a list of
// schema files. It is rebuilt from /repo's working tree on every check run.
package main

import (
	"bytes"
	"encoding/json"
	"fmt"
	"os"
	"sync"

	"github.com/200sc/bebop"
)

type item struct {
	Bop      string `json:"bop"`
	Out      string `json:"out"`
	Package  string `json:"package"`
	Unsafe   bool   `json:"unsafe"`
	Shared   bool   `json:"shared"`
	Tags     bool   `json:"tags"`
	Private  bool   `json:"private"`
	PtrRecv  bool   `json:"ptr_recv"`
	Combined bool   `json:"combined,omitempty"`
	Err      string `json:"err,omitempty"`
}

func main() {
	data, err := os.ReadFile(os.Args[1])
	if err != nil {
		fmt.Fprintln(os.Stderr, err)
		os.Exit(2)
	}
	var items []*item
	if err := json.Unmarshal(data, &items); err != nil {
		fmt.Fprintln(os.Stderr, err)
		os.Exit(2)
	}
	var wg sync.WaitGroup
	sem := make(chan struct{}, 16)
	for _, it := range items {
		wg.Add(1)
		sem <- struct{}{}
		go func(it *item) {
			defer wg.Done()
			defer func() { <-sem }()
			defer func() {
				if r := recover(); r != nil {
					it.Err = fmt.Sprintf("panic: %v", r)
				}
			}()
			src, err := os.ReadFile(it.Bop)
			if err != nil {
				it.Err = err.Error()
				return
			}
			f, _, err := bebop.ReadFile(bytes.NewReader(src))
			if err != nil {
				it.Err = "ReadFile: " + err.Error()
				return
			}
			// imports are resolved relative to the file
			f.FileName = it.Bop
			mode := bebop.ImportGenerationModeSeparate
			if it.Combined {
				mode = bebop.ImportGenerationModeCombined
			}
			var out bytes.Buffer
			err = f.Generate(&out, bebop.GenerateSettings{PackageName: it.Package, GenerateUnsafeMethods: it.Unsafe,
				SharedMemoryStrings: it.Shared, GenerateFieldTags: it.Tags, PrivateDefinitions: it.Private, AlwaysUsePointerReceivers: it.PtrRecv,
				ImportGenerationMode: mode})
			if err != nil {
				it.Err = "Generate: " + err.Error()
				return
			}
			if err := os.WriteFile(it.Out, out.Bytes(), 0o644); err != nil {
				it.Err = err.Error()
			}
		}(it)
	}
	wg.Wait()
	b, _ := json.Marshal(items)
	os.WriteFile(os.Args[2], b, 0o644)
}
