// Package vstub is the harness vocabulary. The symbolic engine intercepts
// every function here by name; the bodies below are the native replay
// implementations, driven by a script of nondeterministic results in call
// order (produced by the engine from a solver model).
package vstub

import "fmt"

var (
	Script   []uint64
	pos      int
	Failures []string
	Notes    []string
	Overrun  bool
)

// Load installs a replay script.
func Load(script []uint64) {
	Script = script
	pos = 0
	Failures = nil
	Notes = nil
	Overrun = false
}

func next() uint64 {
	if pos >= len(Script) {
		Overrun = true
		return 0
	}
	v := Script[pos]
	pos++
	return v
}

func NondetU8() uint8   { return uint8(next()) }
func NondetU16() uint16 { return uint16(next()) }
func NondetU32() uint32 { return uint32(next()) }
func NondetU64() uint64 { return next() }
func NondetBool() bool  { return uint8(next()) == 1 }

func NondetBytes(n int) []byte {
	b := make([]byte, n)
	for i := range b {
		b[i] = uint8(next())
	}
	return b
}

func NondetString(n int) string { return string(NondetBytes(n)) }

// Choose returns a value in [lo, hi]; the engine explores all of them.
func Choose(lo, hi int) int {
	if hi <= lo {
		return lo
	}
	return int(int64(next()))
}

type assumeFailed struct{}

// Assume restricts the inputs; natively a failed assumption aborts the replay.
func Assume(c bool) {
	if !c {
		panic(assumeFailed{})
	}
}

// Assert states a property. Natively failures are collected.
func Assert(id string, c bool) {
	if !c {
		Failures = append(Failures, id)
	}
}

func And(a, b bool) bool  { return a && b }
func Or(a, b bool) bool   { return a || b }
func Note(s string)       { Notes = append(Notes, s) }
func Reach(id string)     {}
func SetLoopBudget(n int) {}
func SetAllocLimit(n int) {}

// SetEnumBound bounds the counts/lengths the engine enumerates when untrusted
// input determines a size: paths with larger values are cut and counted.
func SetEnumBound(n int) {}

// PermuteRanges makes the engine explore every iteration order of the maps
// ranged over while it is on (natively the runtime randomises anyway).
func PermuteRanges(on bool) {}

// IsSymbolic reports whether the harness runs under the engine.
func IsSymbolic() bool { return false }

// Replay runs f under the script and reports what happened.
func Replay(script []uint64, f func()) (failures []string, panicked interface{}, assumeViolated bool) {
	Load(script)
	func() {
		defer func() {
			if r := recover(); r != nil {
				if _, ok := r.(assumeFailed); ok {
					assumeViolated = true
					return
				}
				panicked = fmt.Sprint(r)
			}
		}()
		f()
	}()
	return Failures, panicked, assumeViolated
}

// Panics runs f and reports whether it panicked. (Engine: a panic inside f
// ends f; an unsafe out-of-bounds access is still reported as a violation.)
func Panics(f func()) (p bool) {
	defer func() {
		if r := recover(); r != nil {
			if _, ok := r.(assumeFailed); ok {
				panic(r)
			}
			p = true
		}
	}()
	f()
	return false
}

// B2U8 is the wire encoding of a bool (engine: ite, no fork).
func B2U8(b bool) uint8 {
	if b {
		return 1
	}
	return 0
}
