package vstub

import "time"

// Reference wire-format primitives, written from the format description
// (little-endian scalars, .NET mixed-endian GUIDs, dates as 100ns ticks);
// they share no code with the repository under test.

func PutU16(out []byte, v uint16) []byte { return append(out, byte(v), byte(v>>8)) }

func PutU32(out []byte, v uint32) []byte {
	return append(out, byte(v), byte(v>>8), byte(v>>16), byte(v>>24))
}

func PutU64(out []byte, v uint64) []byte {
	return append(out, byte(v), byte(v>>8), byte(v>>16), byte(v>>24), byte(v>>32), byte(v>>40), byte(v>>48), byte(v>>56))
}

func SetU32(b []byte, v uint32) {
	b[0], b[1], b[2], b[3] = byte(v), byte(v>>8), byte(v>>16), byte(v>>24)
}

func PutGUID(out []byte, g [16]byte) []byte {
	return append(out, g[3], g[2], g[1], g[0], g[5], g[4], g[7], g[6], g[8], g[9], g[10], g[11], g[12], g[13], g[14], g[15])
}

// MaxTick bounds the date domain of the harnesses: instants whose nanosecond
// count fits an int64 (|ticks| <= MaxTick).
const MaxTick = int64(92233720368547758)

// Ticks is the wire value of a date: 0 for the zero time, otherwise the
// nanosecond count divided by 100 (truncated, as the generated encoders do).
func Ticks(t time.Time) int64 {
	if t.IsZero() {
		return 0
	}
	return t.UnixNano() / 100
}

func PutDate(out []byte, t time.Time) []byte {
	return PutU64(out, uint64(Ticks(t)))
}

// NondetDate returns the zero time or an arbitrary UTC instant with
// nanosecond precision (not necessarily a whole number of 100ns ticks) whose
// nanosecond count fits an int64.
func NondetDate() time.Time {
	if Choose(0, 1) == 0 {
		return time.Time{}
	}
	n := int64(NondetU64())
	Assume(And(n >= -MaxTick*100, n <= MaxTick*100))
	return time.Unix(0, n).UTC()
}

func NondetGUID() (g [16]byte) {
	b := NondetBytes(16)
	for i := range g {
		g[i] = b[i]
	}
	return g
}

// DateEq compares two dates at the wire's resolution (100ns ticks; the zero
// time and tick 0 coincide).
func DateEq(a, b time.Time) bool {
	return Ticks(a) == Ticks(b)
}

// NondetDateKey is a date usable as a map key: the zero time or an instant
// that is a whole, non-zero number of ticks (Go compares map keys exactly, the
// wire only keeps ticks, so keys are drawn from values the wire can represent).
func NondetDateKey() time.Time {
	if Choose(0, 1) == 0 {
		return time.Time{}
	}
	t := int64(NondetU64())
	Assume(And(t != 0, And(t >= -MaxTick, t <= MaxTick)))
	return time.Unix(0, t*100).UTC()
}
