package vstub

import (
	"errors"
	"io"
)

// ErrFault is the opaque non-sentinel error delivered by the fault stubs.
var ErrFault = errors.New("vstub: injected fault")

// NondetErr picks the error value a failing stub returns: one of the
// sentinels the code under test compares against, or an opaque one.
func NondetErr() error {
	switch Choose(0, 2) {
	case 0:
		return io.EOF
	case 1:
		return io.ErrUnexpectedEOF
	}
	return ErrFault
}

// FragReader delivers Data in chunks whose sizes are chosen
// nondeterministically (all schedules are explored by the engine). If
// FailAt >= 0 the reader fails with Err once Pos reaches FailAt (a read that
// reaches the failure point may return the bytes before it together with the
// error when EarlyErr is set). At the end of Data it returns io.EOF.
type FragReader struct {
	Data     []byte
	Pos      int
	FailAt   int
	Err      error
	Full     bool // no fragmentation: every Read delivers as much as it can
	MaxFrag  int  // if > 0: only the first MaxFrag reads may be fragmented
	Budget   int  // if > 0: at most Budget reads are short (fragmented); -1 after it is used up
	OneByte  bool // deliver exactly one byte per Read
	EarlyErr bool
	// Transient: the failure happens once; later reads deliver the rest of
	// the data (a timeout that the caller's retry gets past).
	Transient bool
	Failed    bool
	Calls     int
}

func NewFragReader(data []byte) *FragReader { return &FragReader{Data: data, FailAt: -1} }

func (r *FragReader) Read(p []byte) (int, error) {
	r.Calls++
	if len(p) == 0 {
		return 0, nil
	}
	end := len(r.Data)
	if r.FailAt >= 0 && r.FailAt < end {
		end = r.FailAt
	}
	limit := end - r.Pos
	if limit <= 0 {
		if r.FailAt >= 0 && r.Pos >= r.FailAt {
			r.Failed = true
			if r.Transient {
				r.FailAt = -1
			}
			return 0, r.Err
		}
		return 0, io.EOF
	}
	max := len(p)
	if max > limit {
		max = limit
	}
	n := max
	if r.OneByte {
		n = 1
	} else if !r.Full && max > 1 && (r.MaxFrag == 0 || r.Calls <= r.MaxFrag) && r.Budget >= 0 {
		n = Choose(1, max)
		if n < max && r.Budget > 0 {
			r.Budget--
			if r.Budget == 0 {
				r.Budget = -1
			}
		}
	}
	copy(p, r.Data[r.Pos:r.Pos+n])
	r.Pos += n
	if r.EarlyErr && r.FailAt >= 0 && r.Pos == r.FailAt {
		r.Failed = true
		if r.Transient {
			r.FailAt = -1
		}
		return n, r.Err
	}
	return n, nil
}

// ByteFragReader is a FragReader that also implements io.ByteReader (as
// bufio.Reader, bytes.Reader and bytes.Buffer do): code that looks for the
// interface takes a different path.
type ByteFragReader struct{ *FragReader }

func (r ByteFragReader) ReadByte() (byte, error) {
	var b [1]byte
	n, err := r.FragReader.Read(b[:])
	if n == 1 {
		return b[0], nil
	}
	if err == nil {
		err = io.ErrNoProgress
	}
	return 0, err
}

// Sink collects written bytes.
type Sink struct {
	Data  []byte
	Calls int
}

func (s *Sink) Write(p []byte) (int, error) {
	s.Calls++
	s.Data = append(s.Data, p...)
	return len(p), nil
}

// FaultWriter fails on the FailCall-th Write call (0-based) with Err after
// accepting Short bytes of it; if Recover is set later writes succeed again.
type FaultWriter struct {
	Sink
	FailCall int
	Err      error
	Short    int
	Recover  bool
	Failed   bool
}

func (w *FaultWriter) Write(p []byte) (int, error) {
	c := w.Calls
	w.Calls++
	if w.FailCall >= 0 && (c == w.FailCall || (c > w.FailCall && !w.Recover)) {
		w.Failed = true
		n := w.Short
		if n > len(p) {
			n = len(p)
		}
		w.Data = append(w.Data, p[:n]...)
		return n, w.Err
	}
	w.Data = append(w.Data, p...)
	return len(p), nil
}

// BytesEq compares two byte slices without short-circuit forks.
func BytesEq(a, b []byte) bool {
	if len(a) != len(b) {
		return false
	}
	ok := true
	for i := range a {
		ok = And(ok, a[i] == b[i])
	}
	return ok
}
