// Package c20 holds the harnesses for property C20 (iohelp primitives).
package c20

import (
	"github.com/200sc/bebop/iohelp"

	"vh/vstub"
)

// RoundTripU32: ReadUint32Bytes(WriteUint32Bytes(v)) == v and the layout is little-endian.
func RoundTripU32() {
	v := vstub.NondetU32()
	buf := vstub.NondetBytes(6)
	before4, before5 := buf[4], buf[5]
	iohelp.WriteUint32Bytes(buf, v)
	got := iohelp.ReadUint32Bytes(buf)
	vstub.Assert("u32.roundtrip", got == v)
	vstub.Assert("u32.le0", buf[0] == byte(v))
	vstub.Assert("u32.le1", buf[1] == byte(v>>8))
	vstub.Assert("u32.le2", buf[2] == byte(v>>16))
	vstub.Assert("u32.le3", buf[3] == byte(v>>24))
	vstub.Assert("u32.nospill", buf[4] == before4 && buf[5] == before5)
	vstub.Reach("u32.end")
}
