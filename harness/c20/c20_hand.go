package c20

import (
	"io"

	"github.com/200sc/bebop/iohelp"

	"vh/vstub"
)

var _ = io.EOF

// BytesBool: bool round trip, canonical encoding 0/1, decoding of arbitrary bytes.
func BytesBool() {
	b := vstub.NondetBool()
	buf := vstub.NondetBytes(3)
	g1, g2 := buf[1], buf[2]
	iohelp.WriteBoolBytes(buf, b)
	vstub.Assert("Bool.roundtrip", iohelp.ReadBoolBytes(buf) == b)
	vstub.Assert("Bool.layout", vstub.Or(vstub.And(b, buf[0] == 1), vstub.And(!b, buf[0] == 0)))
	vstub.Assert("Bool.nospill", vstub.And(buf[1] == g1, buf[2] == g2))
	x := vstub.NondetBytes(1)
	vstub.Assert("Bool.anybyte", iohelp.ReadBoolBytes(x) == (x[0] == 1))
	empty := make([]byte, 1)
	vstub.Assert("Bool.shortwrite", vstub.Panics(func() { iohelp.WriteBoolBytes(empty[:0:0], b) }))
	vstub.Assert("Bool.shortread", vstub.Panics(func() { _ = iohelp.ReadBoolBytes(empty[:0:0]) }))
	vstub.Reach("BytesBool")
}

func StreamBool() {
	b := vstub.NondetBool()
	ref := make([]byte, 1)
	iohelp.WriteBoolBytes(ref, b)
	sink := &vstub.Sink{}
	w := iohelp.NewErrorWriter(sink)
	iohelp.WriteBool(w, b)
	vstub.Assert("Bool.w.err", w.Err == nil)
	vstub.Assert("Bool.w.bytes", vstub.BytesEq(sink.Data, ref))
	data := vstub.NondetBytes(2)
	fr := vstub.NewFragReader(data)
	r := iohelp.NewErrorReader(fr)
	got := iohelp.ReadBool(r)
	vstub.Assert("Bool.r.err", r.Err == nil)
	vstub.Assert("Bool.r.value", got == iohelp.ReadBoolBytes(data))
	vstub.Assert("Bool.r.consumed", fr.Pos == 1)
	vstub.Reach("StreamBool")
}

func StaleBool() {
	errv := vstub.NondetErr()
	run := func(prior []byte) (bool, error) {
		fr := vstub.NewFragReader(prior)
		fr.Full = true
		fr.FailAt = len(prior)
		fr.Err = errv
		r := iohelp.NewErrorReader(fr)
		_ = iohelp.ReadUint64(r)
		got := iohelp.ReadBool(r)
		return got, r.Err
	}
	a, ea := run(vstub.NondetBytes(8))
	b, eb := run(vstub.NondetBytes(8))
	vstub.Assert("Bool.stale.err", vstub.And(ea != nil, eb != nil))
	vstub.Assert("Bool.stale.value", a == b)
	vstub.Reach("StaleBool")
}

func guidOf(b []byte) (g [16]byte) {
	for i := range g {
		g[i] = b[i]
	}
	return g
}

func guidEq(a, b [16]byte) bool {
	ok := true
	for i := range a {
		ok = vstub.And(ok, a[i] == b[i])
	}
	return ok
}

// the .NET mixed-endian field order, written out independently of iohelp
var guidOrder = [16]int{3, 2, 1, 0, 5, 4, 7, 6, 8, 9, 10, 11, 12, 13, 14, 15}

func BytesGUID() {
	g := guidOf(vstub.NondetBytes(16))
	buf := vstub.NondetBytes(18)
	g16, g17 := buf[16], buf[17]
	iohelp.WriteGUIDBytes(buf, g)
	vstub.Assert("GUID.roundtrip", guidEq(iohelp.ReadGUIDBytes(buf), g))
	ok := true
	for i, j := range guidOrder {
		ok = vstub.And(ok, buf[i] == g[j])
	}
	vstub.Assert("GUID.layout", ok)
	vstub.Assert("GUID.nospill", vstub.And(buf[16] == g16, buf[17] == g17))
	short := make([]byte, 16)
	n := vstub.Choose(0, 15)
	vstub.Assert("GUID.shortwrite", vstub.Panics(func() { iohelp.WriteGUIDBytes(short[:n:n], g) }))
	vstub.Assert("GUID.shortread", vstub.Panics(func() { _ = iohelp.ReadGUIDBytes(short[:n:n]) }))
	vstub.Reach("BytesGUID")
}

func StreamGUID() {
	g := guidOf(vstub.NondetBytes(16))
	ref := make([]byte, 16)
	iohelp.WriteGUIDBytes(ref, g)
	sink := &vstub.Sink{}
	w := iohelp.NewErrorWriter(sink)
	iohelp.WriteGUID(w, g)
	vstub.Assert("GUID.w.err", w.Err == nil)
	vstub.Assert("GUID.w.bytes", vstub.BytesEq(sink.Data, ref))
	data := vstub.NondetBytes(17)
	fr := vstub.NewFragReader(data)
	fr.MaxFrag = 2 // all schedules whose first two reads are short; later reads deliver what is asked
	r := iohelp.NewErrorReader(fr)
	got := iohelp.ReadGUID(r)
	vstub.Assert("GUID.r.err", r.Err == nil)
	vstub.Assert("GUID.r.value", guidEq(got, iohelp.ReadGUIDBytes(data)))
	vstub.Assert("GUID.r.consumed", fr.Pos == 16)
	vstub.Reach("StreamGUID")
}

func StaleGUID() {
	k := vstub.Choose(0, 15)
	errv := vstub.NondetErr()
	// two runs with independent scratch pre-states AND independent delivered
	// bytes: a wire position that was never delivered (>= k) must come back the
	// same in both, whatever was read before and whatever the first k bytes were
	run := func(prior, tail []byte) ([16]byte, error) {
		data := append(append([]byte{}, prior...), tail...)
		fr := vstub.NewFragReader(data)
		fr.Full = true
		fr.FailAt = len(data)
		fr.Err = errv
		r := iohelp.NewErrorReader(fr)
		_ = iohelp.ReadUint64(r)
		got := iohelp.ReadGUID(r)
		return got, r.Err
	}
	ta, tb := vstub.NondetBytes(k), vstub.NondetBytes(k)
	a, ea := run(vstub.NondetBytes(8), ta)
	b, eb := run(vstub.NondetBytes(8), tb)
	vstub.Assert("GUID.stale.err", vstub.And(ea != nil, eb != nil))
	ok := true
	for wire, j := range guidOrder {
		if wire >= k {
			ok = vstub.And(ok, a[j] == b[j])
		}
	}
	vstub.Assert("GUID.stale.value", ok)
	vstub.Reach("StaleGUID")
}

const maxTick = int64(92233720368547758) // floor((2^63-1)/100)

// BytesDate: a tick count within the representable range decodes to the zero
// time exactly when it is 0, and otherwise to the instant tick*100 ns.
func BytesDate() {
	tick := int64(vstub.NondetU64())
	vstub.Assume(tick >= -maxTick && tick <= maxTick)
	buf := make([]byte, 8)
	iohelp.WriteInt64Bytes(buf, tick)
	d := iohelp.ReadDateBytes(buf)
	if tick == 0 {
		vstub.Assert("Date.zero", d.IsZero())
	} else {
		vstub.Assert("Date.nonzero", !d.IsZero())
		vstub.Assert("Date.value", d.UnixNano() == tick*100)
	}
	short := make([]byte, 8)
	n := vstub.Choose(0, 7)
	vstub.Assert("Date.shortread", vstub.Panics(func() { _ = iohelp.ReadDateBytes(short[:n:n]) }))
	vstub.Reach("BytesDate")
}

func StreamDate() {
	data := vstub.NondetBytes(9)
	tick := iohelp.ReadInt64Bytes(data)
	vstub.Assume(tick >= -maxTick && tick <= maxTick)
	fr := vstub.NewFragReader(data)
	fr.MaxFrag = 3
	r := iohelp.NewErrorReader(fr)
	got := iohelp.ReadDate(r)
	want := iohelp.ReadDateBytes(data)
	vstub.Assert("Date.r.err", r.Err == nil)
	vstub.Assert("Date.r.zero", got.IsZero() == want.IsZero())
	if !got.IsZero() && !want.IsZero() {
		vstub.Assert("Date.r.value", got.UnixNano() == want.UnixNano())
	}
	vstub.Assert("Date.r.consumed", fr.Pos == 8)
	vstub.Reach("StreamDate")
}

func StaleDate() {
	k := vstub.Choose(0, 7)
	tail := vstub.NondetBytes(k)
	errv := vstub.NondetErr()
	run := func(prior []byte) (bool, int64, error) {
		data := append(append([]byte{}, prior...), tail...)
		fr := vstub.NewFragReader(data)
		fr.Full = true
		fr.FailAt = len(data)
		fr.Err = errv
		r := iohelp.NewErrorReader(fr)
		_ = iohelp.ReadUint64(r)
		got := iohelp.ReadDate(r)
		if got.IsZero() {
			return true, 0, r.Err
		}
		return false, got.UnixNano(), r.Err
	}
	az, an, ea := run(vstub.NondetBytes(8))
	bz, bn, eb := run(vstub.NondetBytes(8))
	vstub.Assert("Date.stale.err", vstub.And(ea != nil, eb != nil))
	vstub.Assert("Date.stale.value", vstub.And(az == bz, an == bn))
	vstub.Reach("StaleDate")
}

// StringBytes: ReadStringBytes / ReadStringBytesSharedMemory on arbitrary
// buffers of every length up to 12: no panic, no out-of-bounds access, an
// error exactly when the buffer is shorter than the header or the declared
// length, and otherwise the declared bytes.
func StringBytes() {
	l := vstub.Choose(0, 12)
	buf := vstub.NondetBytes(l)
	shared := vstub.Choose(0, 1) == 1
	var s string
	var err error
	if shared {
		s, err = iohelp.ReadStringBytesSharedMemory(buf)
	} else {
		s, err = iohelp.ReadStringBytes(buf)
	}
	if l < 4 {
		vstub.Assert("String.short.header", err != nil)
		vstub.Reach("StringBytes.shortheader")
		return
	}
	sz := uint64(buf[0]) | uint64(buf[1])<<8 | uint64(buf[2])<<16 | uint64(buf[3])<<24
	if sz+4 > uint64(l) {
		vstub.Assert("String.short.body", err != nil)
		vstub.Reach("StringBytes.shortbody")
		return
	}
	vstub.Assert("String.ok.err", err == nil)
	vstub.Assert("String.ok.len", uint64(len(s)) == sz)
	ok := true
	for i := 0; i < len(s) && i+4 < l; i++ {
		ok = vstub.And(ok, s[i] == buf[4+i])
	}
	vstub.Assert("String.ok.bytes", ok)
	vstub.Reach("StringBytes.ok")
}

// StringStream: ReadString agrees with ReadStringBytes on a well-formed
// stream under every fragmentation, consumes exactly 4+n bytes, and reports
// an error when the stream ends early.
func StringStream() {
	n := vstub.Choose(0, 3)
	body := vstub.NondetBytes(n)
	data := []byte{byte(n), 0, 0, 0}
	data = append(data, body...)
	data = append(data, 0xEE)
	fr := vstub.NewFragReader(data)
	r := iohelp.NewErrorReader(fr)
	got := iohelp.ReadString(r)
	want, err := iohelp.ReadStringBytes(data)
	vstub.Assert("String.r.err", vstub.And(r.Err == nil, err == nil))
	vstub.Assert("String.r.value", got == want)
	vstub.Assert("String.r.consumed", fr.Pos == 4+n)

	cut := vstub.Choose(0, 3+n)
	fr2 := vstub.NewFragReader(data[:cut])
	fr2.Full = true
	r2 := iohelp.NewErrorReader(fr2)
	_ = iohelp.ReadString(r2)
	vstub.Assert("String.r.truncated", r2.Err != nil)
	vstub.Reach("StringStream")
}

// StaleString: a ReadString whose length prefix cannot be read must not size
// its result from bytes left in the scratch buffer by an earlier read.
func StaleString() {
	k := vstub.Choose(0, 3)
	tail := vstub.NondetBytes(k)
	errv := vstub.NondetErr()
	run := func(prior []byte) (string, error) {
		data := append(append([]byte{}, prior...), tail...)
		fr := vstub.NewFragReader(data)
		fr.Full = true
		fr.FailAt = len(data)
		fr.Err = errv
		r := iohelp.NewErrorReader(fr)
		_ = iohelp.ReadUint64(r)
		got := iohelp.ReadString(r)
		return got, r.Err
	}
	a, ea := run(vstub.NondetBytes(8))
	b, eb := run(vstub.NondetBytes(8))
	vstub.Assert("String.stale.err", vstub.And(ea != nil, eb != nil))
	vstub.Assert("String.stale.len", len(a) == len(b))
	if len(a) == len(b) {
		// what a failed read returns does not depend on the bytes of the read before it
		vstub.Assert("String.stale.bytes", a == b)
	}
	vstub.Reach("StaleString")
}

// StaleString2: a string read that fails part-way, on a reader that has
// already delivered an earlier (longer) string: what it returns does not
// depend on the bytes of the earlier string.
func StaleString2() {
	n := vstub.Choose(1, 3)
	k := vstub.Choose(0, n-1)
	tail := vstub.NondetBytes(k)
	errv := vstub.NondetErr()
	run := func(prior []byte) (string, error) {
		data := append([]byte{3, 0, 0, 0}, prior...)
		data = append(data, byte(n), 0, 0, 0)
		data = append(data, tail...)
		fr := vstub.NewFragReader(data)
		fr.Full = true
		fr.FailAt = len(data)
		fr.Err = errv
		r := iohelp.NewErrorReader(fr)
		_ = iohelp.ReadString(r)
		got := iohelp.ReadString(r)
		return got, r.Err
	}
	a, ea := run(vstub.NondetBytes(3))
	b, eb := run(vstub.NondetBytes(3))
	vstub.Assert("String.stale2.err", vstub.And(ea != nil, eb != nil))
	vstub.Assert("String.stale2.len", len(a) == len(b))
	if len(a) == len(b) {
		vstub.Assert("String.stale2.bytes", a == b)
	}
	vstub.Reach("StaleString2")
}

// StaleString3: a short string whose body is cut off, read right after an
// 8-byte scalar: the result does not depend on the scalar's bytes.
func StaleString3() {
	n := vstub.Choose(1, 9)
	k := vstub.Choose(0, n-1)
	if k > 3 {
		k = 3
	}
	tail := vstub.NondetBytes(k)
	errv := vstub.NondetErr()
	run := func(prior []byte) (string, error) {
		data := append(append([]byte{}, prior...), byte(n), 0, 0, 0)
		data = append(data, tail...)
		fr := vstub.NewFragReader(data)
		fr.Full = true
		fr.FailAt = len(data)
		fr.Err = errv
		r := iohelp.NewErrorReader(fr)
		_ = iohelp.ReadUint64(r)
		got := iohelp.ReadString(r)
		return got, r.Err
	}
	a, ea := run(vstub.NondetBytes(8))
	b, eb := run(vstub.NondetBytes(8))
	vstub.Assert("String.stale3.err", vstub.And(ea != nil, eb != nil))
	vstub.Assert("String.stale3.len", len(a) == len(b))
	if len(a) == len(b) {
		vstub.Assert("String.stale3.bytes", a == b)
	}
	vstub.Reach("StaleString3")
}

// StringStreamLong: a string whose declared length is large (around the sizes
// where an implementation might switch strategy) on a stream that ends after
// a few bytes of the body: the failure is reflected in the reader's error state.
func StringStreamLong() {
	sizes := []int{1, 2, 8, 9, 255, 256, 4096, 65535, 65536, 65537, 70000, 1 << 20}
	sz := sizes[vstub.Choose(0, len(sizes)-1)]
	k := vstub.Choose(0, 2)
	if k >= sz {
		return
	}
	body := vstub.NondetBytes(k)
	data := []byte{byte(sz), byte(sz >> 8), byte(sz >> 16), byte(sz >> 24)}
	data = append(data, body...)
	fr := vstub.NewFragReader(data)
	fr.Full = true
	if vstub.Choose(0, 1) == 1 {
		fr.FailAt = len(data)
		fr.Err = vstub.NondetErr()
	}
	vstub.SetAllocLimit(1 << 22)
	r := iohelp.NewErrorReader(fr)
	_ = iohelp.ReadString(r)
	vstub.Assert("String.long.err", r.Err != nil)
	vstub.Reach("StringStreamLong")
}

// Hand lists the hand-written harness entry points and the reach markers each must witness.
var Hand = []string{"BytesBool", "StreamBool", "StaleBool", "BytesGUID", "StreamGUID", "StaleGUID", "BytesDate", "StreamDate", "StaleDate", "StringBytes", "StringStream", "StaleString", "StaleString2", "StaleString3", "StringStreamLong"}
