#!/bin/sh
# Builds the verification framework offline from files on disk.
set -e
cd "$(dirname "$0")"
export GOFLAGS=-mod=mod GOPROXY=off GOSUMDB=off GOTOOLCHAIN=local
mkdir -p bin evidence
(cd engine && go build -o ../bin/vcheck ./cmd/vcheck)
echo "built bin/vcheck"
