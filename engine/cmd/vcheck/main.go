package main

import (
	"encoding/json"
	"flag"
	"fmt"
	"os"
	"sort"
	"strings"
	"time"

	"gosym/interp"
	"gosym/term"
)

func main() {
	if len(os.Args) < 2 {
		fmt.Fprintln(os.Stderr, "usage: vcheck exec|run|replay ...")
		os.Exit(2)
	}
	switch os.Args[1] {
	case "exec":
		cmdExec(os.Args[2:])
	default:
		fmt.Fprintln(os.Stderr, "unknown subcommand", os.Args[1])
		os.Exit(2)
	}
}

func cmdExec(args []string) {
	fs := flag.NewFlagSet("exec", flag.ExitOnError)
	dir := fs.String("dir", ".", "module directory")
	pats := fs.String("pkgs", "./...", "comma separated package patterns")
	fns := fs.String("func", "", "comma separated pkgpath.Func harness entry points")
	trace := fs.Bool("trace", false, "trace instructions")
	slog := fs.String("solverlog", "", "file to log solver input to")
	rw := fs.Bool("check-rewrites", false, "validate simplifier rewrites with the solver")
	maxp := fs.Int("maxpaths", 0, "path limit")
	norw := fs.Bool("no-rewrite", false, "disable structural rewriting (constant folding only): every identity goes to the solver")
	fs.Parse(args)
	if *norw {
		term.Rewrite = false
	}
	t0 := time.Now()
	l, err := interp.Load(*dir, nil, strings.Split(*pats, ",")...)
	if err != nil {
		fmt.Fprintln(os.Stderr, "load:", err)
		os.Exit(2)
	}
	for p, es := range l.Errors {
		fmt.Fprintf(os.Stderr, "package %s: %v\n", p, es)
	}
	fmt.Fprintf(os.Stderr, "loaded %d packages in %v\n", len(l.All), time.Since(t0))
	e, err := interp.New(l.Prog, interp.Options{Trace: *trace, SolverLog: *slog, CheckRewrites: *rw, MaxPaths: *maxp})
	if err != nil {
		fmt.Fprintln(os.Stderr, err)
		os.Exit(2)
	}
	defer e.Close()
	t1 := time.Now()
	if err := e.InitAll(l); err != nil {
		fmt.Fprintln(os.Stderr, "init:", err)
		os.Exit(2)
	}
	fmt.Fprintf(os.Stderr, "init in %v\n", time.Since(t1))
	for _, name := range strings.Split(*fns, ",") {
		fn, err := l.FindFunc(name)
		if err != nil {
			fmt.Fprintln(os.Stderr, err)
			os.Exit(2)
		}
		t2 := time.Now()
		before := e.Stats.Paths
		e.Run(fn)
		fmt.Fprintf(os.Stderr, "%s: %d paths in %v\n", name, e.Stats.Paths-before, time.Since(t2))
	}
	out := map[string]interface{}{
		"paths": e.Stats.Paths, "paths_by_end": e.Stats.PathsByEnd, "instrs": e.Stats.Instrs,
		"obligations": e.Stats.Obligations, "by_rewriting": e.Stats.ByRewriting, "by_solver": e.Stats.BySolver,
		"inconclusive": e.Stats.Inconclusive, "incon_reasons": e.Stats.InconReasons, "forks": e.Stats.Forks,
		"assert_ids": e.Stats.AssertIDs, "solver": e.S.Stats, "nfuncs": len(e.Stats.Funcs), "rewrite_checks": e.Stats.RewriteChecks,
	}
	var vs []*interp.Violation
	for _, k := range e.VOrder {
		vs = append(vs, e.Viol[k])
	}
	out["violations"] = vs
	var fnames []string
	for f := range e.Stats.Funcs {
		fnames = append(fnames, f)
	}
	sort.Strings(fnames)
	out["funcs"] = fnames
	b, _ := json.MarshalIndent(out, "", " ")
	fmt.Println(string(b))
}
