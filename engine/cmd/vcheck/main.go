package main

import (
	"encoding/json"
	"flag"
	"fmt"
	"os"
	"path/filepath"
	"runtime/pprof"
	"sort"
	"strings"
	"time"

	"gosym/corpus"
	"gosym/drivers"
	"gosym/interp"
	"gosym/term"
)

func main() {
	if len(os.Args) < 2 {
		fmt.Fprintln(os.Stderr, "usage: vcheck exec|run|replay ...")
		os.Exit(2)
	}
	switch os.Args[1] {
	case "exec":
		cmdExec(os.Args[2:])
	case "shapes":
		tier := "quick"
		if len(os.Args) > 2 {
			tier = os.Args[2]
		}
		for _, p := range corpus.Shapes(tier) {
			fmt.Printf("%s\t%s\n", p.Name, p.Shape)
		}
	case "worker":
		drivers.Worker(os.Args[2], os.Args[3])
	case "run":
		os.Exit(cmdRun(os.Args[2:]))
	case "replay":
		os.Exit(cmdReplay(os.Args[2:]))
	default:
		fmt.Fprintln(os.Stderr, "unknown subcommand", os.Args[1])
		os.Exit(2)
	}
}

func cmdExec(args []string) {
	fs := flag.NewFlagSet("exec", flag.ExitOnError)
	dir := fs.String("dir", ".", "module directory")
	pats := fs.String("pkgs", "./...", "comma separated package patterns")
	fns := fs.String("func", "", "comma separated pkgpath.Func harness entry points")
	trace := fs.Bool("trace", false, "trace instructions")
	slog := fs.String("solverlog", "", "file to log solver input to")
	rw := fs.Bool("check-rewrites", false, "validate simplifier rewrites with the solver")
	maxp := fs.Int("maxpaths", 0, "path limit")
	norw := fs.Bool("no-rewrite", false, "disable structural rewriting (constant folding only): every identity goes to the solver")
	prof := fs.String("cpuprofile", "", "write CPU profile")
	fs.Parse(args)
	if *prof != "" {
		f, _ := os.Create(*prof)
		pprof.StartCPUProfile(f)
		defer pprof.StopCPUProfile()
	}
	if *norw {
		term.Rewrite = false
	}
	t0 := time.Now()
	l, err := interp.Load(*dir, nil, strings.Split(*pats, ",")...)
	if err != nil {
		fmt.Fprintln(os.Stderr, "load:", err)
		os.Exit(2)
	}
	for p, es := range l.Errors {
		fmt.Fprintf(os.Stderr, "package %s: %v\n", p, es)
	}
	fmt.Fprintf(os.Stderr, "loaded %d packages in %v\n", len(l.All), time.Since(t0))
	e, err := interp.New(l.Prog, interp.Options{Trace: *trace, SolverLog: *slog, CheckRewrites: *rw, MaxPaths: *maxp})
	if err != nil {
		fmt.Fprintln(os.Stderr, err)
		os.Exit(2)
	}
	defer e.Close()
	e.Stats.ForkSites = map[string]int{}
	t1 := time.Now()
	if err := e.InitAll(l); err != nil {
		fmt.Fprintln(os.Stderr, "init:", err)
		os.Exit(2)
	}
	fmt.Fprintf(os.Stderr, "init in %v\n", time.Since(t1))
	for _, name := range strings.Split(*fns, ",") {
		fn, err := l.FindFunc(name)
		if err != nil {
			fmt.Fprintln(os.Stderr, err)
			os.Exit(2)
		}
		t2 := time.Now()
		before := e.Stats.Paths
		e.Run(fn)
		fmt.Fprintf(os.Stderr, "%s: %d paths in %v\n", name, e.Stats.Paths-before, time.Since(t2))
	}
	out := map[string]interface{}{
		"paths": e.Stats.Paths, "paths_by_end": e.Stats.PathsByEnd, "instrs": e.Stats.Instrs,
		"obligations": e.Stats.Obligations, "by_rewriting": e.Stats.ByRewriting, "by_solver": e.Stats.BySolver,
		"inconclusive": e.Stats.Inconclusive, "incon_reasons": e.Stats.InconReasons, "forks": e.Stats.Forks,
		"assert_ids": e.Stats.AssertIDs, "solver": e.S.Stats, "nfuncs": len(e.Stats.Funcs), "rewrite_checks": e.Stats.RewriteChecks,
	}
	out["fork_sites"] = e.Stats.ForkSites
	if e.S2 != nil {
		out["solver2"] = e.S2.Stats
	}
	out["routed"] = e.Stats.SolverRouted
	var vs []*interp.Violation
	for _, k := range e.VOrder {
		vs = append(vs, e.Viol[k])
	}
	out["violations"] = vs
	var fnames []string
	for f := range e.Stats.Funcs {
		fnames = append(fnames, f)
	}
	sort.Strings(fnames)
	out["funcs"] = fnames
	b, _ := json.MarshalIndent(out, "", " ")
	fmt.Println(string(b))
}

var checks = map[string]struct {
	prep  func(*drivers.Ctx) (*drivers.Prepared, error)
	level string
}{
	"C01": {drivers.PrepareC01, "model_checking"},
	"C02": {drivers.PrepareC02, "model_checking"},
	"C03": {drivers.PrepareC03, "model_checking"},
	"C04": {drivers.PrepareC04, "model_checking"},
	"C05": {drivers.PrepareC05, "model_checking"},
	"C06": {drivers.PrepareC06, "model_checking"},
	"C07": {drivers.PrepareC07, "model_checking"},
	"C08": {drivers.PrepareC08, "model_checking"},
	"C09": {drivers.PrepareC09, "model_checking"},
	"C10": {drivers.PrepareC10, "model_checking"},
	"C11": {drivers.PrepareC11, "model_checking"},
	"C13": {drivers.PrepareC13, "model_checking"},
	"C15": {drivers.PrepareC15, "model_checking"},
	"C16": {drivers.PrepareC16, "model_checking"},
	"C17": {drivers.PrepareC17, "model_checking"},
	"C18": {drivers.PrepareC18, "model_checking"},
	"C20": {drivers.PrepareC20, "model_checking"},
}

func newCtx(id, tier string) (*drivers.Ctx, func()) {
	verif := os.Getenv("VERIF_DIR")
	if verif == "" {
		// the framework root is the parent of the directory holding this binary
		verif = "/verif"
		if exe, err := os.Executable(); err == nil {
			if root := filepath.Dir(filepath.Dir(exe)); fileExists(filepath.Join(root, "MANIFEST.json")) {
				verif = root
			}
		}
	}
	repo := os.Getenv("VERIF_REPO")
	if repo == "" {
		repo = "/repo"
	}
	base := os.Getenv("VERIF_WORK")
	if base == "" {
		base = "/var/tmp"
	}
	work, err := os.MkdirTemp(base, "verif-work-")
	if err != nil {
		fmt.Fprintln(os.Stderr, err)
		os.Exit(2)
	}
	var seed int64
	fmt.Sscanf(os.Getenv("VERIF_SEED"), "%d", &seed)
	par := 16
	if s := os.Getenv("VERIF_PAR"); s != "" {
		fmt.Sscanf(s, "%d", &par)
	}
	ctx := &drivers.Ctx{ID: id, Tier: tier, Seed: seed, Work: work, Par: par, Verif: verif, Repo: repo}
	return ctx, func() {
		if os.Getenv("VERIF_KEEP") != "" {
			fmt.Fprintln(os.Stderr, "keeping work dir", work)
			return
		}
		os.RemoveAll(work)
	}
}

func cmdRun(args []string) int {
	if len(args) < 1 {
		fmt.Fprintln(os.Stderr, "usage: vcheck run <property> [--tier quick|thorough] [--only substr]")
		return 2
	}
	id := args[0]
	fs := flag.NewFlagSet("run", flag.ExitOnError)
	tier := fs.String("tier", "", "quick or thorough")
	only := fs.String("only", "", "restrict to jobs whose name contains this")
	fs.Parse(args[1:])
	if *tier == "" {
		*tier = os.Getenv("VERIF_TIER")
	}
	if *tier == "" {
		*tier = "quick"
	}
	c, ok := checks[id]
	if !ok {
		fmt.Fprintln(os.Stderr, "unknown property", id)
		return 2
	}
	ctx, cleanup := newCtx(id, *tier)
	defer cleanup()
	ctx.Only = *only
	return drivers.RunCheck(ctx, c.prep, c.level)
}

func cmdReplay(args []string) int {
	if len(args) < 1 {
		fmt.Fprintln(os.Stderr, "usage: vcheck replay <dir>")
		return 2
	}
	dir := args[0]
	// the property id is the parent directory's name
	id := filepath.Base(filepath.Dir(filepath.Clean(dir)))
	c, ok := checks[id]
	if !ok {
		fmt.Fprintln(os.Stderr, "cannot determine property from", dir)
		return 2
	}
	ctx, cleanup := newCtx(id, "quick")
	defer cleanup()
	return drivers.Replay(dir, ctx, c.prep)
}

func fileExists(p string) bool {
	_, err := os.Stat(p)
	return err == nil
}
