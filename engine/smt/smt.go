// Package smt drives a long-lived SMT solver process (z3 -in, z3-new -in or
// cvc5 --incremental) with push/pop, tracking which definitions are alive in
// which frame.
package smt

import (
	"bufio"
	"fmt"
	"io"
	"os/exec"
	"strings"
	"time"

	"gosym/term"
)

type Result int

const (
	Unknown Result = iota
	Sat
	Unsat
)

func (r Result) String() string { return [...]string{"unknown", "sat", "unsat"}[r] }

type Stats struct {
	Queries    int
	Sat        int
	Unsat      int
	Unknown    int
	Errors     int
	Time       time.Duration
	MaxQuery   time.Duration
	ValuesTime time.Duration
	SendTime   time.Duration
}

type Solver struct {
	Name    string
	cmd     *exec.Cmd
	in      io.WriteCloser
	out     *bufio.Reader
	lines   chan string
	Dead    bool
	depth   int
	defined map[*term.Term]int // term -> frame depth where defined
	frames  [][]*term.Term     // per frame: terms defined there
	Stats   Stats
	Log     io.Writer
	LastErr string
	kind    string
	timeout int
}

// New starts a solver. kind: "z3", "z3-new", "cvc5", "cvc5-int".
func New(kind string, timeoutMs int) (*Solver, error) {
	var cmd *exec.Cmd
	switch kind {
	case "z3":
		cmd = exec.Command("/usr/bin/z3", "-in")
	case "z3-new":
		cmd = exec.Command("z3-new", "-in")
	case "cvc5":
		cmd = exec.Command("cvc5", "--incremental", "--produce-models", fmt.Sprintf("--tlimit-per=%d", timeoutMs))
	case "cvc5-int":
		cmd = exec.Command("cvc5", "--incremental", "--produce-models", "--solve-bv-as-int=sum", fmt.Sprintf("--tlimit-per=%d", timeoutMs))
	default:
		return nil, fmt.Errorf("unknown solver kind %q", kind)
	}
	in, err := cmd.StdinPipe()
	if err != nil {
		return nil, err
	}
	outp, err := cmd.StdoutPipe()
	if err != nil {
		return nil, err
	}
	cmd.Stderr = nil
	if err := cmd.Start(); err != nil {
		return nil, err
	}
	s := &Solver{Name: kind, kind: kind, cmd: cmd, in: in, out: bufio.NewReaderSize(outp, 1<<16),
		defined: map[*term.Term]int{}, frames: [][]*term.Term{nil}, timeout: timeoutMs}
	s.lines = make(chan string, 1024)
	go func() {
		for {
			line, err := s.out.ReadString('\n')
			if line != "" {
				s.lines <- line
			}
			if err != nil {
				close(s.lines)
				return
			}
		}
	}()
	if strings.HasPrefix(kind, "z3") {
		s.send(fmt.Sprintf("(set-option :timeout %d)", timeoutMs))
		s.send("(set-option :produce-models true)")
	} else {
		s.send("(set-logic QF_BV)")
	}
	return s, nil
}

func (s *Solver) Close() {
	if s == nil || s.cmd == nil {
		return
	}
	s.in.Close()
	done := make(chan struct{})
	go func() { s.cmd.Wait(); close(done) }()
	select {
	case <-done:
	case <-time.After(2 * time.Second):
		s.cmd.Process.Kill()
	}
	s.cmd = nil
}

func (s *Solver) send(line string) {
	if s.Dead {
		return
	}
	t0 := time.Now()
	defer func() { s.Stats.SendTime += time.Since(t0) }()
	if s.Log != nil {
		fmt.Fprintln(s.Log, line)
	}
	io.WriteString(s.in, line)
	io.WriteString(s.in, "\n")
}

func (s *Solver) Depth() int { return s.depth }

// NumDefined is the number of live declarations and definitions.
func (s *Solver) NumDefined() int { return len(s.defined) }

func (s *Solver) Push() {
	s.send("(push 1)")
	s.depth++
	s.frames = append(s.frames, nil)
}

func (s *Solver) Pop() {
	if s.depth == 0 {
		panic("smt: pop at depth 0")
	}
	for _, t := range s.frames[s.depth] {
		delete(s.defined, t)
	}
	s.frames = s.frames[:s.depth]
	s.depth--
	s.send("(pop 1)")
}

func (s *Solver) PopTo(d int) {
	for s.depth > d {
		s.Pop()
	}
}

func name(t *term.Term) string { return fmt.Sprintf("t!%d", t.ID) }

// ref returns the textual reference to t, emitting definitions as needed.
func (s *Solver) ref(t *term.Term) string {
	switch t.Op {
	case term.OpConst:
		return t.Head(nil)
	case term.OpVar:
		if _, ok := s.defined[t]; !ok {
			s.send(fmt.Sprintf("(declare-const %s %s)", t.Name, term.SortStr(t.W)))
			s.defined[t] = s.depth
			s.frames[s.depth] = append(s.frames[s.depth], t)
		}
		return t.Name
	}
	if _, ok := s.defined[t]; ok {
		return name(t)
	}
	s.define(t)
	return name(t)
}

// define emits definitions for t and its undefined descendants iteratively
// (post-order, explicit stack: terms can be deep).
func (s *Solver) define(root *term.Term) {
	type item struct {
		t    *term.Term
		done bool
	}
	stack := []item{{root, false}}
	for len(stack) > 0 {
		it := stack[len(stack)-1]
		stack = stack[:len(stack)-1]
		t := it.t
		if t == nil || t.Op == term.OpConst {
			continue
		}
		if _, ok := s.defined[t]; ok {
			continue
		}
		if t.Op == term.OpVar {
			s.ref(t)
			continue
		}
		if !it.done {
			stack = append(stack, item{t, true})
			stack = append(stack, item{t.C, false}, item{t.B, false}, item{t.A, false})
			continue
		}
		body := t.Head(func(c *term.Term) string {
			if c.Op == term.OpConst {
				return c.Head(nil)
			}
			if c.Op == term.OpVar {
				return c.Name
			}
			return name(c)
		})
		s.send(fmt.Sprintf("(define-fun %s () %s %s)", name(t), term.SortStr(t.W), body))
		s.defined[t] = s.depth
		s.frames[s.depth] = append(s.frames[s.depth], t)
	}
}

// Predefine emits the definitions of t in the current frame.
func (s *Solver) Predefine(t *term.Term) { s.ref(t) }

func (s *Solver) Assert(t *term.Term) {
	if t.W != 0 {
		panic("smt: assert of non-bool")
	}
	r := s.ref(t)
	s.send("(assert " + r + ")")
}

// readRaw returns the next output line, killing the solver if it does not
// answer within the query timeout plus a grace period.
func (s *Solver) readRaw() (string, error) {
	if s.Dead {
		return "", fmt.Errorf("solver is dead")
	}
	select {
	case line, ok := <-s.lines:
		if !ok {
			s.Dead = true
			return "", fmt.Errorf("solver exited")
		}
		return line, nil
	case <-time.After(time.Duration(s.timeout)*time.Millisecond + 5*time.Second):
		s.Dead = true
		if s.cmd != nil && s.cmd.Process != nil {
			s.cmd.Process.Kill()
		}
		return "", fmt.Errorf("solver did not answer within its time limit; killed")
	}
}

func (s *Solver) readLine() (string, error) {
	line, err := s.readRaw()
	return strings.TrimSpace(line), err
}

// Check runs check-sat.
func (s *Solver) Check() Result {
	t0 := time.Now()
	s.send("(check-sat)")
	res := Unknown
	sawErr := false
	for {
		line, err := s.readLine()
		if err != nil {
			s.LastErr = "solver died: " + err.Error()
			sawErr = true
			break
		}
		if line == "" {
			continue
		}
		if strings.HasPrefix(line, "(error") {
			s.LastErr = line
			sawErr = true
			// cvc5 terminates on some errors; z3 continues. keep reading.
			continue
		}
		switch line {
		case "sat":
			res = Sat
		case "unsat":
			res = Unsat
		case "unknown", "timeout":
			res = Unknown
		default:
			s.LastErr = "unexpected solver output: " + line
			sawErr = true
			continue
		}
		break
	}
	if sawErr {
		res = Unknown
		s.Stats.Errors++
	}
	d := time.Since(t0)
	if s.Log != nil {
		fmt.Fprintf(s.Log, "; -> %v in %v\n", res, d)
	}
	s.Stats.Queries++
	s.Stats.Time += d
	if d > s.Stats.MaxQuery {
		s.Stats.MaxQuery = d
	}
	switch res {
	case Sat:
		s.Stats.Sat++
	case Unsat:
		s.Stats.Unsat++
	default:
		s.Stats.Unknown++
	}
	return res
}

// CheckWith checks satisfiability of the current stack plus extra, leaving
// the stack unchanged.
func (s *Solver) CheckWith(extra ...*term.Term) Result {
	// define the terms in the current frame (they stay available to later
	// queries of this frame), assert them in a scratch frame
	refs := make([]string, len(extra))
	for i, e := range extra {
		refs[i] = s.ref(e)
	}
	s.Push()
	for _, r := range refs {
		s.send("(assert " + r + ")")
	}
	r := s.Check()
	s.Pop()
	return r
}

// Values returns the model values of the given terms (after a Sat answer,
// before any pop).
func (s *Solver) Values(ts []*term.Term) (map[*term.Term]uint64, error) {
	t0 := time.Now()
	defer func() { s.Stats.ValuesTime += time.Since(t0) }()
	out := map[*term.Term]uint64{}
	if len(ts) == 0 {
		return out, nil
	}
	for start := 0; start < len(ts); start += 200 {
		end := start + 200
		if end > len(ts) {
			end = len(ts)
		}
		var sb strings.Builder
		sb.WriteString("(get-value (")
		for _, t := range ts[start:end] {
			sb.WriteString(s.ref(t))
			sb.WriteByte(' ')
		}
		sb.WriteString("))")
		s.send(sb.String())
		txt, err := s.readSexp()
		if err != nil {
			return nil, err
		}
		vals, err := parseValues(txt)
		if err != nil {
			return nil, fmt.Errorf("%v in %q", err, txt)
		}
		if len(vals) != end-start {
			return nil, fmt.Errorf("get-value: %d values for %d terms: %s", len(vals), end-start, txt)
		}
		for i, t := range ts[start:end] {
			out[t] = vals[i]
		}
	}
	return out, nil
}

func (s *Solver) readSexp() (string, error) {
	var sb strings.Builder
	depth := 0
	started := false
	for {
		line, err := s.readRaw()
		if err != nil {
			return sb.String(), err
		}
		for _, c := range line {
			if c == '(' {
				depth++
				started = true
			} else if c == ')' {
				depth--
			}
		}
		sb.WriteString(line)
		if started && depth <= 0 {
			break
		}
	}
	txt := sb.String()
	if strings.HasPrefix(strings.TrimSpace(txt), "(error") {
		return txt, fmt.Errorf("solver error: %s", txt)
	}
	return txt, nil
}

// parseValues parses ((name val) (name val) ...) and returns the values in order.
func parseValues(txt string) ([]uint64, error) {
	var vals []uint64
	toks := tokenize(txt)
	// expect: ( ( name val ) ( name val ) ... )
	i := 0
	if len(toks) == 0 || toks[0] != "(" {
		return nil, fmt.Errorf("bad get-value output")
	}
	i = 1
	for i < len(toks) && toks[i] == "(" {
		// skip the name: either an atom or a parenthesised expression
		i++
		i = skipExpr(toks, i)
		if i >= len(toks) {
			return nil, fmt.Errorf("truncated")
		}
		v, ni, err := parseVal(toks, i)
		if err != nil {
			return nil, err
		}
		vals = append(vals, v)
		i = ni
		if i >= len(toks) || toks[i] != ")" {
			return nil, fmt.Errorf("expected )")
		}
		i++
	}
	return vals, nil
}

func skipExpr(toks []string, i int) int {
	if toks[i] != "(" {
		return i + 1
	}
	d := 0
	for ; i < len(toks); i++ {
		if toks[i] == "(" {
			d++
		} else if toks[i] == ")" {
			d--
			if d == 0 {
				return i + 1
			}
		}
	}
	return i
}

func parseVal(toks []string, i int) (uint64, int, error) {
	t := toks[i]
	switch {
	case t == "true":
		return 1, i + 1, nil
	case t == "false":
		return 0, i + 1, nil
	case strings.HasPrefix(t, "#x"):
		var v uint64
		_, err := fmt.Sscanf(t[2:], "%x", &v)
		return v, i + 1, err
	case strings.HasPrefix(t, "#b"):
		var v uint64
		for _, c := range t[2:] {
			v = v<<1 | uint64(c-'0')
		}
		return v, i + 1, nil
	case t == "(":
		// (_ bv123 32)
		if i+4 < len(toks) && toks[i+1] == "_" && strings.HasPrefix(toks[i+2], "bv") {
			var v uint64
			_, err := fmt.Sscanf(toks[i+2][2:], "%d", &v)
			return v, i + 5, err
		}
	}
	return 0, i, fmt.Errorf("cannot parse value %q", t)
}

func tokenize(s string) []string {
	var toks []string
	cur := strings.Builder{}
	flush := func() {
		if cur.Len() > 0 {
			toks = append(toks, cur.String())
			cur.Reset()
		}
	}
	for _, c := range s {
		switch c {
		case '(', ')':
			flush()
			toks = append(toks, string(c))
		case ' ', '\n', '\t', '\r':
			flush()
		default:
			cur.WriteRune(c)
		}
	}
	flush()
	return toks
}
