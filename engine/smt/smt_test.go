package smt

import (
	"testing"

	"gosym/term"
)

func TestBasic(t *testing.T) {
	for _, kind := range []string{"z3", "z3-new", "cvc5", "cvc5-int"} {
		s, err := New(kind, 5000)
		if err != nil {
			t.Fatal(err)
		}
		x := term.Var("x", 32)
		y := term.Var("y", 32)
		s.Push()
		s.Assert(term.Eq(term.Bin(term.OpBvAdd, x, y), term.Const(32, 10)))
		s.Assert(term.Cmp(term.OpUlt, x, term.Const(32, 3)))
		if r := s.Check(); r != Sat {
			t.Fatalf("%s: %v %s", kind, r, s.LastErr)
		}
		m, err := s.Values([]*term.Term{x, y})
		if err != nil {
			t.Fatal(err)
		}
		if uint32(m[x]+m[y]) != 10 {
			t.Fatalf("%s: model %v", kind, m)
		}
		s.Push()
		s.Assert(term.Cmp(term.OpUlt, y, term.Const(32, 3)))
		if r := s.Check(); r != Unsat {
			t.Fatalf("%s: %v", kind, r)
		}
		s.Pop()
		s.Pop()
		s.Assert(term.Eq(x, y))
		if r := s.Check(); r != Sat {
			t.Fatalf("%s: %v %s", kind, r, s.LastErr)
		}
		s.Close()
	}
}
