package drivers

import (
	"crypto/sha1"
	"encoding/json"
	"fmt"
	"os"
	"os/exec"
	"path/filepath"
	"regexp"
	"sort"
	"strings"
	"time"

	"gosym/interp"
)

type Ctx struct {
	ID    string
	Tier  string
	Seed  int64
	Work  string
	Par   int
	Verif string
	Repo  string
	Only  string // optional filter on job names (debugging)
}

// Prepared is what a property's Prepare step hands to the generic runner.
type Prepared struct {
	Jobs          []*Job
	Targets       map[string]*ReplayTarget // harness package path -> native replay target
	Bounds        map[string]interface{}
	Assumptions   []string
	Stubs         []string
	Programs      int
	NotAnalysable map[string]string
	Rule          string
	Explanation   string
	Normalize     func(j *Job, pkg string, v *interp.Violation) Sig
	ExpectReach   map[string][]string // job name -> reach ids that must be witnessed
	Cleanup       func()
	CostKey       func(fn string) string // stable name of a harness function for cost hints (default: the function path)
	AllRuns       bool                   // native replays of assertion failures must fail in every run (byte-level comparisons of two encodings)
}

// Sig identifies a failing site (not the failing input).
type Sig struct {
	Kind    string `json:"kind"`
	ID      string `json:"id"`
	Func    string `json:"func"`
	Stmt    string `json:"stmt"`
	Harness string `json:"harness"`
	Class   string `json:"class,omitempty"` // record kind / construct, set by the property's normaliser
}

func (s Sig) String() string {
	return fmt.Sprintf("kind=%s id=%q func=%s stmt=%q harness=%s class=%s", s.Kind, s.ID, s.Func, s.Stmt, s.Harness, s.Class)
}

type Finding struct {
	Property string            `json:"property"`
	Status   string            `json:"status"` // known | fixed
	Match    map[string]string `json:"match"`
	What     string            `json:"what"`
	Commit   string            `json:"commit,omitempty"`
}

func loadFindings(path string) ([]Finding, error) {
	data, err := os.ReadFile(path)
	if err != nil {
		if os.IsNotExist(err) {
			return nil, nil
		}
		return nil, err
	}
	var fs []Finding
	if err := json.Unmarshal(data, &fs); err != nil {
		return nil, fmt.Errorf("%s: %v", path, err)
	}
	return fs, nil
}

// wild matches s against a glob pattern in which '*' stands for any text.
func wild(pat, s string) bool {
	if !strings.Contains(pat, "*") {
		return pat == s
	}
	parts := strings.Split(pat, "*")
	if !strings.HasPrefix(s, parts[0]) {
		return false
	}
	s = s[len(parts[0]):]
	for i := 1; i < len(parts)-1; i++ {
		k := strings.Index(s, parts[i])
		if k < 0 {
			return false
		}
		s = s[k+len(parts[i]):]
	}
	return strings.HasSuffix(s, parts[len(parts)-1])
}

func (f *Finding) matches(prop string, s Sig) bool {
	if f.Property != prop || f.Status != "known" {
		return false
	}
	get := map[string]string{"kind": s.Kind, "id": s.ID, "func": s.Func, "stmt": s.Stmt, "harness": s.Harness, "class": s.Class}
	for k, pat := range f.Match {
		v, ok := get[k]
		if !ok || !wild(pat, v) {
			return false
		}
	}
	return true
}

func defaultNormalize(j *Job, pkg string, v *interp.Violation) Sig {
	return Sig{Kind: v.Kind, ID: v.ID, Func: v.Func, Stmt: v.Stmt}
}

var wsRe = regexp.MustCompile(`\s+`)

type vioRec struct {
	job     *Job
	pkg     string
	harness string
	v       *interp.Violation
	sig     Sig
	outcome *CaseOutcome
	replay  string
	known   *Finding
}

// RunCheck runs one property check and returns the process exit code.
func RunCheck(ctx *Ctx, prepare func(*Ctx) (*Prepared, error), level string) int {
	t0 := time.Now()
	prep, err := prepare(ctx)
	if prep != nil && prep.Cleanup != nil {
		defer prep.Cleanup()
	}
	if err != nil {
		fmt.Printf("BROKEN property=%s prepare: %v\n", ctx.ID, err)
		return 2
	}
	if prep.Normalize == nil {
		prep.Normalize = defaultNormalize
	}
	jobs := prep.Jobs
	if ctx.Only != "" {
		var fj []*Job
		for _, j := range jobs {
			if strings.Contains(j.Name, ctx.Only) {
				fj = append(fj, j)
			}
		}
		jobs = fj
	}
	fmt.Printf("property=%s tier=%s jobs=%d\n", ctx.ID, ctx.Tier, len(jobs))
	tPrep := time.Since(t0)
	sortJobsByCost(ctx, prep, jobs)
	// overall budget of the engine phase: thorough runs explore until it is
	// used up and say which jobs were left out (VERIF_GLOBAL_BUDGET_S overrides)
	var deadline time.Time
	budget := 0.0
	if ctx.Tier == "thorough" {
		budget = 3000
	}
	if v := os.Getenv("VERIF_GLOBAL_BUDGET_S"); v != "" {
		fmt.Sscanf(v, "%g", &budget)
	}
	if budget > 0 {
		deadline = time.Now().Add(time.Duration(budget * float64(time.Second)))
	}
	results := RunJobs(jobs, ctx.Par, ctx.Work, deadline)
	if os.Getenv("VERIF_WRITE_HINTS") != "" && ctx.Only == "" {
		writeHints(ctx, prep, results)
	}
	tEngine := time.Since(t0) - tPrep
	findings, err := loadFindings(filepath.Join(ctx.Verif, "known_findings.json"))
	if err != nil {
		fmt.Printf("BROKEN property=%s %v\n", ctx.ID, err)
		return 2
	}

	// ---- aggregate ----
	var (
		paths, obligations, byRw, bySolver, incon, forks, rwChecks, boundCuts int
		instrs                                                                int64
		pathsByEnd                                                            = map[string]int{}
		inconReasons                                                          = map[string]int{}
		assertIDs                                                             = map[string]int{}
		encoded                                                               = map[string]bool{}
		fatal                                                                 []string
		funcErrors                                                            []string
		vios                                                                  []*vioRec
		witnesses                                                             = map[string][]ReplayCase{} // package path -> cases
		qTotal, qSat, qUnsat, qUnknown, qErr                                  int
		solverTime, solverMax                                                 time.Duration
		inconFuncs                                                            []string
		skippedJobs                                                           = map[string]bool{}
		harnessesRun                                                          int
		loadErrors                                                            = map[string][]string{}
		initWarn                                                              = map[string]bool{}
	)
	jobByName := map[string]*Job{}
	for _, j := range jobs {
		jobByName[j.Name] = j
	}
	for _, r := range results {
		j := jobByName[r.Job]
		if r.Fatal != "" {
			fatal = append(fatal, r.Job+": "+r.Fatal)
			continue
		}
		if r.Skipped {
			skippedJobs[r.Job] = true
			incon++
			inconReasons["job-not-run-overall-time-budget"]++
			inconFuncs = append(inconFuncs, "job not run (overall time budget): "+r.Job)
			continue
		}
		for p, es := range r.LoadErrors {
			loadErrors[p] = es
		}
		for _, w := range r.InitWarn {
			initWarn[w] = true
		}
		for _, s := range []struct{ q, s, u, k, e int }{{r.Solver.Queries, r.Solver.Sat, r.Solver.Unsat, r.Solver.Unknown, r.Solver.Errors}, {r.Solver2.Queries, r.Solver2.Sat, r.Solver2.Unsat, r.Solver2.Unknown, r.Solver2.Errors}} {
			qTotal += s.q
			qSat += s.s
			qUnsat += s.u
			qUnknown += s.k
			qErr += s.e
		}
		solverTime += r.Solver.Time + r.Solver2.Time + r.Solver.ValuesTime + r.Solver2.ValuesTime
		if r.Solver.MaxQuery > solverMax {
			solverMax = r.Solver.MaxQuery
		}
		if r.Solver2.MaxQuery > solverMax {
			solverMax = r.Solver2.MaxQuery
		}
		for _, f := range r.Encoded {
			encoded[f] = true
		}
		for _, fr := range r.Funcs {
			if strings.HasPrefix(fr.Error, "not-analysable:") {
				if prep.NotAnalysable == nil {
					prep.NotAnalysable = map[string]string{}
				}
				pk := fr.Func[:strings.LastIndex(fr.Func, ".")]
				prep.NotAnalysable[pk] = strings.TrimPrefix(fr.Error, "not-analysable:")
				continue
			}
			if fr.Error != "" {
				funcErrors = append(funcErrors, r.Job+"/"+fr.Func+": "+fr.Error)
				continue
			}
			harnessesRun++
			paths += fr.Paths
			instrs += fr.Instrs
			obligations += fr.Obligations
			byRw += fr.ByRewriting
			bySolver += fr.BySolver
			incon += fr.Inconclusive
			forks += fr.Forks
			rwChecks += fr.RewriteChk
			boundCuts += fr.BoundCuts
			for k, v := range fr.PathsByEnd {
				pathsByEnd[k] += v
			}
			for k, v := range fr.InconReasons {
				inconReasons[k] += v
			}
			if fr.Inconclusive > 0 {
				inconFuncs = append(inconFuncs, fmt.Sprintf("%s (%d paths, %.0fs)", fr.Func, fr.Paths, fr.WallS))
			}
			for k, v := range fr.AssertIDs {
				assertIDs[k] += v
			}
			h := fr.Func[strings.LastIndex(fr.Func, ".")+1:]
			pk := fr.Func[:strings.LastIndex(fr.Func, ".")]
			for _, v := range fr.Violations {
				s := prep.Normalize(j, pk, v)
				s.Harness = h
				vios = append(vios, &vioRec{job: j, pkg: pk, harness: h, v: v, sig: s})
			}
			// translation validation: path witnesses are replayed natively (quick
			// tier: a sample of the packages, thorough: all)
			if ctx.Tier == "thorough" || len(prep.Targets) < 20 || pkgSample(pk, len(prep.Targets)) {
				for _, w := range fr.Witnesses {
					witnesses[pk] = append(witnesses[pk], ReplayCase{Func: h, Script: w, Runs: 1})
				}
			}
		}
	}
	// slowest harnesses (diagnostics)
	if os.Getenv("VERIF_PROFILE") != "" {
		type hf struct {
			name string
			fr   *FuncResult
		}
		var all []hf
		for _, r := range results {
			for _, fr := range r.Funcs {
				all = append(all, hf{r.Job + "/" + fr.Func, fr})
			}
		}
		sort.Slice(all, func(i, j int) bool { return all[i].fr.WallS > all[j].fr.WallS })
		for i, h := range all {
			if i >= 25 {
				break
			}
			fmt.Printf("  slow: %-50s %.1fs paths=%d forks=%d incon=%v\n", h.name, h.fr.WallS, h.fr.Paths, h.fr.Forks, h.fr.InconReasons)
		}
		sort.Slice(results, func(i, j int) bool { return results[i].WallS > results[j].WallS })
		for i, r := range results {
			if i >= 5 {
				break
			}
			fmt.Printf("  slow job: %s %.1fs load=%.1fs queries=%d solver=%.1fs\n", r.Job, r.WallS, r.LoadS, r.Solver.Queries, r.Solver.Time.Seconds())
		}
	}
	// expected reach markers
	var missingReach []string
	for jn, ids := range prep.ExpectReach {
		if ctx.Only != "" && !strings.Contains(jn, ctx.Only) {
			continue
		}
		if skippedJobs[jn] {
			continue // not run (overall time budget): already reported as undecided
		}
		for _, id := range ids {
			if assertIDs["reach:"+id] == 0 {
				missingReach = append(missingReach, jn+":"+id)
			}
		}
	}

	// ---- native replay of counterexamples and witnesses ----
	replayDir := filepath.Join(ctx.Verif, "replays", ctx.ID)
	os.RemoveAll(replayDir)
	tracesValidated := 0
	var disagreements []string
	// one representative per failing site is replayed natively (two for good
	// measure); the other instances of the same signature inherit its outcome
	byJob := map[string][]*vioRec{}
	repOf := map[string][]*vioRec{}
	for _, v := range vios {
		k := v.sig.String()
		if len(repOf[k]) < 2 {
			repOf[k] = append(repOf[k], v)
			byJob[v.pkg] = append(byJob[v.pkg], v)
		}
	}
	var jobNames []string
	for n := range byJob {
		jobNames = append(jobNames, n)
	}
	for n := range witnesses {
		if _, ok := byJob[n]; !ok {
			jobNames = append(jobNames, n)
		}
	}
	sort.Strings(jobNames)
	type rjob struct {
		name string
	}
	// replay in parallel over jobs
	sem := make(chan struct{}, ctx.Par)
	done := make(chan string, len(jobNames))
	type rres struct {
		err error
	}
	for _, jn := range jobNames {
		jn := jn
		sem <- struct{}{}
		go func() {
			defer func() { <-sem; done <- jn }()
			tg := prep.Targets[jn]
			if tg == nil {
				for _, v := range byJob[jn] {
					v.outcome = &CaseOutcome{Summary: "no native replay target"}
				}
				return
			}
			var cases []ReplayCase
			var owner []int // case index -> violation index
			for vi, v := range byJob[jn] {
				runs := 1
				if v.v.Kind == "assert" {
					runs = 24
				}
				cases = append(cases, ReplayCase{Func: v.harness, Script: v.v.Script, Runs: runs, Kind: v.v.Kind, ID: v.v.ID, Group: vi + 1, AllRuns: prep.AllRuns})
				owner = append(owner, vi)
				for _, alt := range v.v.Alt {
					cases = append(cases, ReplayCase{Func: v.harness, Script: alt, Runs: runs, Kind: v.v.Kind, ID: v.v.ID, Group: vi + 1, AllRuns: prep.AllRuns})
					owner = append(owner, vi)
				}
			}
			nv := len(cases)
			cases = append(cases, witnesses[jn]...)
			if len(cases) == 0 {
				return
			}
			funcs := map[string]bool{}
			for _, c := range cases {
				funcs[c.Func] = true
			}
			tcopy := *tg
			tcopy.Funcs = nil
			for f := range funcs {
				tcopy.Funcs = append(tcopy.Funcs, f)
			}
			out := filepath.Join(ctx.Work, "replay-"+sanitize(jn))
			bin, err := BuildReplayBinary(&tcopy, out)
			if err != nil {
				for _, v := range byJob[jn] {
					v.outcome = &CaseOutcome{Summary: "replay build failed: " + err.Error()}
				}
				return
			}
			outs, err := RunReplay(bin, cases, out)
			if err != nil {
				for _, v := range byJob[jn] {
					v.outcome = &CaseOutcome{Summary: "replay failed: " + err.Error()}
				}
				return
			}
			for i := 0; i < nv; i++ {
				v := byJob[jn][owner[i]]
				o := outs[i]
				if v.outcome == nil || (!v.outcome.Reproduced && o.Reproduced) {
					v.outcome = &o
					if o.Reproduced {
						v.v.Script = cases[i].Script
					}
				}
			}
			for i := nv; i < len(cases); i++ {
				if outs[i].Reproduced {
					witnesses[jn][i-nv].Kind = "ok"
				} else {
					witnesses[jn][i-nv].Kind = "DISAGREE: " + outs[i].Summary
				}
			}
			os.Remove(bin)
		}()
	}
	for range jobNames {
		<-done
	}
	for jn, ws := range witnesses {
		for _, w := range ws {
			if w.Kind == "ok" {
				tracesValidated++
			} else if strings.HasPrefix(w.Kind, "DISAGREE") {
				disagreements = append(disagreements, fmt.Sprintf("%s/%s witness: %s script=%v", jn, w.Func, w.Kind, w.Script))
			}
		}
	}

	tReplay := time.Since(t0) - tPrep - tEngine
	fmt.Printf("phases: prepare=%.1fs engine=%.1fs native-replay=%.1fs\n", tPrep.Seconds(), tEngine.Seconds(), tReplay.Seconds())
	// ---- classify violations ----
	exit := 0
	knownMatched := map[string]int{}
	var knownOrder []string
	var violationLines []string
	seenSig := map[string]bool{}
	unconfirmed := map[string]int{}
	for _, v := range vios {
		if v.outcome == nil {
			// inherit from a representative of the same site
			for _, r := range repOf[v.sig.String()] {
				if r.outcome != nil && (v.outcome == nil || r.outcome.Reproduced) {
					o := *r.outcome
					v.outcome = &o
				}
			}
		}
		if v.outcome == nil {
			v.outcome = &CaseOutcome{Summary: "not replayed"}
		}
		if !v.outcome.Reproduced {
			if (v.sig.Kind == "runaway" || v.sig.Kind == "alloc") && !strings.Contains(v.outcome.Summary, "failed") {
				// The loop and allocation budgets are the engine's proxies for "out of
				// proportion to the input" and are deliberately low; natively such an
				// alarm only shows past a deadline, 64 KiB or a failed proportion
				// assertion. One that stays below all of them (e.g. 255 iterations of
				// a loop over zero-size elements) is reported as undecided, not as a
				// violation and not as a disagreement between engine and code.
				unconfirmed[v.sig.String()]++
				continue
			}
			disagreements = append(disagreements, fmt.Sprintf("%s/%s %s: engine counterexample did not reproduce natively (%s) script=%v", v.job.Name, v.harness, v.sig, v.outcome.Summary, v.v.Script))
			continue
		}
		tracesValidated++
		for i := range findings {
			if findings[i].matches(ctx.ID, v.sig) {
				v.known = &findings[i]
				break
			}
		}
		if v.known != nil {
			if knownMatched[v.known.What] == 0 {
				knownOrder = append(knownOrder, v.known.What)
			}
			knownMatched[v.known.What] += v.v.Count
			continue
		}
		key := v.sig.String()
		if seenSig[key] {
			continue
		}
		seenSig[key] = true
		dir := filepath.Join(replayDir, sigHash(key))
		writeReplayDir(dir, ctx, v, prep.Targets[v.pkg])
		v.replay = dir
		violationLines = append(violationLines, fmt.Sprintf("VIOLATION property=%s replay=%s", ctx.ID, dir))
		fmt.Printf("  violation: %s\n    at %s: %s\n    %s\n    native: %s\n", v.sig, v.v.Site, v.v.Stmt, v.v.Detail, v.outcome.Summary)
		exit = 1
	}
	for _, w := range knownOrder {
		fmt.Printf("KNOWN-FINDING: property=%s %s\n", ctx.ID, w)
	}
	for _, l := range violationLines {
		fmt.Println(l)
	}

	// ---- broken / inconclusive ----
	broken := false
	for _, f := range fatal {
		fmt.Printf("BROKEN job %s\n", f)
		broken = true
	}
	for _, f := range funcErrors {
		fmt.Printf("BROKEN harness %s\n", f)
		broken = true
	}
	for _, d := range disagreements {
		fmt.Printf("BROKEN disagreement: %s\n", d)
		broken = true
	}
	for _, m := range missingReach {
		fmt.Printf("BROKEN vacuity: reach marker %s never witnessed\n", m)
		broken = true
	}
	for k, n := range unconfirmed {
		incon += n
		inconReasons["resource-alarm-not-observable-natively"] += n
		inconFuncs = append(inconFuncs, fmt.Sprintf("resource alarm below native observability x%d: %s", n, k))
	}
	if incon > 0 {
		var ks []string
		for k, n := range inconReasons {
			ks = append(ks, fmt.Sprintf("%s x%d", k, n))
		}
		sort.Strings(ks)
		fmt.Printf("INCONCLUSIVE property=%s %d obligations/paths not decided: %s\n", ctx.ID, incon, strings.Join(ks, "; "))
		sort.Strings(inconFuncs)
		for i, f := range inconFuncs {
			if i == 12 {
				fmt.Printf("  ... and %d more\n", len(inconFuncs)-i)
				break
			}
			fmt.Printf("  not fully decided: %s\n", f)
		}
	}
	if harnessesRun == 0 {
		broken = true
	}

	// ---- evidence ----
	var encList []string
	for f := range encoded {
		encList = append(encList, f)
	}
	sort.Strings(encList)
	var samples []interface{}
	ns := 0
	for jn, ws := range witnesses {
		for _, w := range ws {
			if ns >= 4 {
				break
			}
			samples = append(samples, map[string]interface{}{"job": jn, "harness": w.Func, "path_witness_script": w.Script, "native_replay": w.Kind})
			ns++
		}
	}
	for i, v := range vios {
		if i >= 6 {
			break
		}
		samples = append(samples, map[string]interface{}{"job": v.job.Name, "harness": v.harness, "counterexample": v.sig, "site": v.v.Site, "script": v.v.Script, "native": v.outcome.Summary, "known": v.known != nil})
	}
	if len(samples) == 0 {
		samples = append(samples, map[string]interface{}{"note": "no witness collected"})
	}
	var idList []string
	for k := range assertIDs {
		idList = append(idList, k)
	}
	sort.Strings(idList)
	if len(idList) > 400 {
		idList = idList[:400]
	}
	var warnList []string
	for w := range initWarn {
		warnList = append(warnList, w)
	}
	sort.Strings(warnList)
	cov := map[string]interface{}{
		"states":                            paths,
		"transitions":                       instrs,
		"traces_validated_against_impl":     tracesValidated,
		"samples":                           samples,
		"obligations":                       obligations,
		"discharged":                        byRw + bySolver,
		"discharged_by_solver":              bySolver,
		"discharged_by_validated_rewriting": byRw,
		"rewrite_lemmas_checked_by_solver":  rwChecks,
		"inconclusive":                      incon,
		"inconclusive_reasons":              inconReasons,
		"paths_by_end":                      pathsByEnd,
		"forks":                             forks,
		"paths_cut_at_enumeration_bound":    boundCuts,
		"harnesses_run":                     harnessesRun,
		"jobs":                              len(jobs),
		"programs":                          prep.Programs,
		"functions_encoded":                 encList,
		"functions_encoded_count":           len(encList),
		"bounds":                            prep.Bounds,
		"stubs":                             prep.Stubs,
		"queries":                           map[string]int{"total": qTotal, "sat": qSat, "unsat": qUnsat, "unknown": qUnknown, "errors": qErr},
		"solver_time_s":                     solverTime.Seconds(),
		"solver_max_query_s":                solverMax.Seconds(),
		"solvers":                           solverNames(),
		"not_analysable":                    prep.NotAnalysable,
		"known_findings_matched":            knownMatched,
		"assertion_ids":                     idList,
		"engine_init_warnings":              warnList,
		"explanation":                       prep.Explanation,
		"exhaustive":                        false,
	}
	nviol := 0
	if exit == 1 {
		nviol = len(violationLines)
	}
	ev := map[string]interface{}{
		"property_id": ctx.ID,
		"tier":        ctx.Tier,
		"seed":        ctx.Seed,
		"level":       level,
		"coverage":    cov,
		"assumptions": prep.Assumptions,
		"wall_s":      time.Since(t0).Seconds(),
		"violations":  nviol,
	}
	os.MkdirAll(filepath.Join(ctx.Verif, "evidence"), 0o755)
	b, _ := json.MarshalIndent(ev, "", " ")
	if err := os.WriteFile(filepath.Join(ctx.Verif, "evidence", ctx.ID+".json"), b, 0o644); err != nil {
		fmt.Printf("BROKEN cannot write evidence: %v\n", err)
		broken = true
	}
	fmt.Printf("property=%s tier=%s paths=%d obligations=%d (solver %d, rewriting %d, lemmas %d) inconclusive=%d queries=%d solver=%.1fs traces_validated=%d known=%d violations=%d wall=%.1fs\n",
		ctx.ID, ctx.Tier, paths, obligations, bySolver, byRw, rwChecks, incon, qTotal, solverTime.Seconds(), tracesValidated, len(knownMatched), nviol, time.Since(t0).Seconds())
	if exit == 1 {
		return 1
	}
	if broken {
		return 2
	}
	return 0
}

func sanitize(s string) string {
	return strings.Map(func(r rune) rune {
		if r >= 'a' && r <= 'z' || r >= 'A' && r <= 'Z' || r >= '0' && r <= '9' || r == '-' || r == '_' {
			return r
		}
		return '_'
	}, s)
}

func sigHash(s string) string {
	h := sha1.Sum([]byte(s))
	return fmt.Sprintf("%x", h[:6])
}

type replayFile struct {
	Property string     `json:"property"`
	Tier     string     `json:"tier"`
	Job      string     `json:"job"`
	Pkg      string     `json:"pkg"`
	Harness  string     `json:"harness"`
	Sig      Sig        `json:"signature"`
	Site     string     `json:"site"`
	Stmt     string     `json:"stmt"`
	Detail   string     `json:"detail"`
	Script   []uint64   `json:"script"`
	Notes    []string   `json:"notes"`
	Native   string     `json:"native_outcome"`
	Case     ReplayCase `json:"case"`
	HowTo    string     `json:"how_to_replay"`
}

func writeReplayDir(dir string, ctx *Ctx, v *vioRec, tg *ReplayTarget) {
	os.MkdirAll(dir, 0o755)
	runs := 1
	if v.v.Kind == "assert" {
		runs = 24
	}
	rf := replayFile{Property: ctx.ID, Tier: ctx.Tier, Job: v.job.Name, Pkg: v.pkg, Harness: v.harness, Sig: v.sig, Site: v.v.Site, Stmt: v.v.Stmt,
		Detail: v.v.Detail, Script: v.v.Script, Notes: v.v.Notes, Native: v.outcome.Summary,
		Case:  ReplayCase{Func: v.harness, Script: v.v.Script, Runs: runs, Kind: v.v.Kind, ID: v.v.ID},
		HowTo: "bin/vcheck replay " + dir + "  (regenerates the code under test from /repo, rebuilds the harness natively and feeds it the script)"}
	b, _ := json.MarshalIndent(rf, "", " ")
	os.WriteFile(filepath.Join(dir, "replay.json"), b, 0o644)
}

// Replay re-runs a recorded counterexample natively. Returns exit code 1 if it reproduces.
func Replay(dir string, ctx *Ctx, prepare func(*Ctx) (*Prepared, error)) int {
	data, err := os.ReadFile(filepath.Join(dir, "replay.json"))
	if err != nil {
		fmt.Println(err)
		return 2
	}
	var rf replayFile
	if err := json.Unmarshal(data, &rf); err != nil {
		fmt.Println(err)
		return 2
	}
	ctx.ID, ctx.Tier = rf.Property, rf.Tier
	prep, err := prepare(ctx)
	if prep != nil && prep.Cleanup != nil {
		defer prep.Cleanup()
	}
	if err != nil {
		fmt.Println("prepare:", err)
		return 2
	}
	tg := prep.Targets[rf.Pkg]
	if tg == nil {
		fmt.Println("no replay target for package", rf.Pkg)
		return 2
	}
	t := *tg
	t.Funcs = []string{rf.Harness}
	out := filepath.Join(ctx.Work, "replay")
	bin, err := BuildReplayBinary(&t, out)
	if err != nil {
		fmt.Println(err)
		return 2
	}
	outs, err := RunReplay(bin, []ReplayCase{rf.Case}, out)
	if err != nil {
		fmt.Println(err)
		return 2
	}
	o := outs[0]
	fmt.Printf("replay of %s/%s (%s): reproduced=%v: %s\n", rf.Job, rf.Harness, rf.Sig, o.Reproduced, o.Summary)
	if o.Reproduced {
		fmt.Printf("VIOLATION property=%s replay=%s\n", rf.Property, dir)
		return 1
	}
	return 0
}

// pkgSample selects the packages whose path witnesses are replayed natively
// in the quick tier: every third package, thinned out further so that about
// 64 replay binaries are built however large the corpus is.
func pkgSample(pk string, total int) bool {
	h := 0
	for _, c := range pk {
		h = h*31 + int(c)
	}
	if h < 0 {
		h = -h
	}
	every := 3
	if total/64 > every {
		every = total / 64
	}
	return h%every == 0
}

// solverNames reports the solver back ends the workers use.
func solverNames() []string {
	main := os.Getenv("GOSYM_SOLVER")
	if main == "" {
		main = "z3-new"
		if _, err := exec.LookPath("z3-new"); err != nil {
			main = "z3"
		}
	}
	ver := func(bin string) string {
		out, err := exec.Command(bin, "--version").Output()
		if err != nil {
			return bin
		}
		l := strings.SplitN(strings.TrimSpace(string(out)), "\n", 2)[0]
		return bin + ": " + l
	}
	bin := map[string]string{"z3": "/usr/bin/z3", "z3-new": "z3-new"}[main]
	if bin == "" {
		bin = main
	}
	return []string{ver(bin) + " (-in, incremental; path conditions and assertions)",
		ver("cvc5") + " (--incremental --solve-bv-as-int=sum; path conditions with products, division or remainder)"}
}
