package drivers

import (
	"fmt"
	"path/filepath"
)

func textTarget(ctx *Ctx) *ReplayTarget {
	hdir := filepath.Join(ctx.Verif, "harness")
	return &ReplayTarget{ModDir: hdir, PkgPath: "vh/text", PkgDir: filepath.Join(hdir, "text"), PkgName: "text", Vstub: "vh/vstub", Overlay: true}
}

func textAssumptions() []string {
	return []string{
		"schema texts come from the check's own AST printer (no parser of ours involved); the expected File is built from the same AST",
		"symbolic parts of a text: one identifier character out of [a-z0-9_], decimal digits of literals and indices, printable comment/string bytes, one or two separators out of {space, tab}; line ending, indentation and one-line/multi-line layout are enumerated",
		"fmt.* approximated (error texts are not inspected); strconv.ParseFloat evaluated natively on concrete literals",
		"bufio, strings, strconv.ParseInt/ParseUint/Unquote, unicode tables, sort interpreted from the standard library's SSA",
	}
}

// prepareTextShards builds one job per shard function VH_<prop>_<nn>.
func prepareTextShards(ctx *Ctx, prop string, nshards int, reach []string, budget float64) *Prepared {
	hdir := filepath.Join(ctx.Verif, "harness")
	p := &Prepared{Targets: map[string]*ReplayTarget{}, ExpectReach: map[string][]string{}}
	for s := 0; s < nshards; s++ {
		j := &Job{Name: fmt.Sprintf("%s-shard%02d", prop, s), Dir: hdir, Patterns: []string{"./text"},
			Funcs: []string{fmt.Sprintf("vh/text.VH_%s_%02d", prop, s)},
			Opt:   JobOptions{LoopBudget: 100000, AllocLimit: 1 << 22, TimeoutMs: 20000, EnumCap: 300, CheckRewrites: true, Witnesses: 2, FuncBudgetS: budget}}
		p.Jobs = append(p.Jobs, j)
		if len(reach) > 0 {
			p.ExpectReach[j.Name] = reach
		}
	}
	p.Targets["vh/text"] = textTarget(ctx)
	p.Programs = 1
	p.Assumptions = textAssumptions()
	p.Stubs = []string{"vstub.FragReader", "vstub.Sink", "fmt.* approximated", "strconv.ParseFloat native on concrete input"}
	return p
}

func textBudget(ctx *Ctx) float64 {
	if ctx.Tier == "thorough" {
		return 1800
	}
	return 100
}

func PrepareC11(ctx *Ctx) (*Prepared, error) {
	p := prepareTextShards(ctx, "C11", 16, []string{"c11"}, textBudget(ctx))
	p.Bounds = map[string]interface{}{
		"cases":   "130 schema ASTs: 30 single-construct schemas (enums over every base type, [flags], structs with every type-expression form, readonly, integer and 4-character opcodes, messages, unions, consts of every literal form, imports, go_package, doc comments and deprecations) + all 100 ordered pairs of 10 attributed definition kinds",
		"layouts": "LF / CRLF, space / tab indentation, one-line / multi-line; one separator byte symbolic over {space, tab}",
		"outside": "schemas outside the case list; comment placements other than directly above a definition, field or option; more than one symbolic character per identifier",
	}
	p.Explanation = "bounded symbolic execution of bebop.ReadFile (tokenizer, token tree, parser, flag expression evaluator) on printed ASTs with symbolic details; the File returned is compared field by field with the File built from the AST"
	return p, nil
}

func PrepareC16(ctx *Ctx) (*Prepared, error) {
	p := prepareTextShards(ctx, "C16", 16, nil, textBudget(ctx))
	p.Bounds = map[string]interface{}{"cases": "the 130 schema ASTs of C11 restricted to texts ReadFile accepts, in the same layouts", "compared": "every File field except comments and comment-derived tags"}
	p.Explanation = "bounded symbolic execution of bebop.Format followed by bebop.ReadFile on its output; the two Files must be equal up to comments"
	return p, nil
}

func PrepareC17(ctx *Ctx) (*Prepared, error) {
	p := prepareTextShards(ctx, "C17", 16, nil, textBudget(ctx))
	p.Bounds = map[string]interface{}{"cases": "the 130 schema ASTs of C11 restricted to texts ReadFile accepts and Format processes without error"}
	p.Explanation = "bounded symbolic execution of bebop.Format applied twice; the two outputs are compared byte for byte (symbolic bytes included)"
	return p, nil
}
