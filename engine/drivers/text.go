package drivers

import (
	"fmt"
	"path/filepath"
)

func textTarget(ctx *Ctx) *ReplayTarget {
	hdir := filepath.Join(ctx.Verif, "harness")
	return &ReplayTarget{ModDir: hdir, PkgPath: "vh/text", PkgDir: filepath.Join(hdir, "text"), PkgName: "text", Vstub: "vh/vstub", Overlay: true}
}

func textAssumptions() []string {
	return []string{
		"schema texts come from the check's own AST printer (no parser of ours involved); the expected File is built from the same AST",
		"symbolic parts of a text: one identifier character out of [a-z0-9_], decimal digits of literals and indices, printable comment/string bytes, one or two separators out of {space, tab}; line ending, indentation and one-line/multi-line layout are enumerated",
		"fmt.* approximated (error texts are not inspected); strconv.ParseFloat evaluated natively on concrete literals",
		"bufio, strings, strconv.ParseInt/ParseUint/Unquote, unicode tables, sort interpreted from the standard library's SSA",
	}
}

// prepareTextShards builds the jobs for the per-case functions VH_<prop>_<nnn>
// (one function per schema case, a few functions per job).
func prepareTextShards(ctx *Ctx, prop string, ncases int, reach []string, budget float64) *Prepared {
	hdir := filepath.Join(ctx.Verif, "harness")
	p := &Prepared{Targets: map[string]*ReplayTarget{}, ExpectReach: map[string][]string{}}
	perJob := 3
	fn := prop // quick: VH_<prop>_<nnn>; thorough: VH_<prop>T_<nnn> (Deep mode of harness/text)
	if ctx.Tier == "thorough" {
		perJob = 1
		fn = prop + "T"
	}
	for s := 0; s < ncases; s += perJob {
		j := &Job{Name: fmt.Sprintf("%s-cases%03d", prop, s), Dir: hdir, Patterns: []string{"./text"},
			Opt: JobOptions{LoopBudget: 100000, AllocLimit: 1 << 22, TimeoutMs: 20000, EnumCap: 300, CheckRewrites: true, Witnesses: 1, FuncBudgetS: budget}}
		for k := s; k < s+perJob && k < ncases; k++ {
			j.Funcs = append(j.Funcs, fmt.Sprintf("vh/text.VH_%s_%03d", fn, k))
		}
		p.Jobs = append(p.Jobs, j)
		if len(reach) > 0 {
			p.ExpectReach[j.Name] = reach
		}
	}
	p.Targets["vh/text"] = textTarget(ctx)
	p.Programs = 1
	p.Assumptions = textAssumptions()
	p.Stubs = []string{"vstub.FragReader", "vstub.Sink", "fmt.* approximated", "strconv.ParseFloat native on concrete input"}
	return p
}

// textCases is the number of schema cases in harness/text (NCases there).
const textCases = 147

func textBudget(ctx *Ctx) float64 {
	if ctx.Tier == "thorough" {
		return 600
	}
	return 150
}

func PrepareC11(ctx *Ctx) (*Prepared, error) {
	p := prepareTextShards(ctx, "C11", textCases, []string{"c11"}, textBudget(ctx))
	// names that are keywords of the language: accepted => present in the File
	kj := &Job{Name: "C11-keyword-names", Dir: filepath.Join(ctx.Verif, "harness"), Patterns: []string{"./text"},
		Opt: JobOptions{LoopBudget: 100000, AllocLimit: 1 << 22, TimeoutMs: 20000, EnumCap: 300, CheckRewrites: true, Witnesses: 1, FuncBudgetS: textBudget(ctx)}}
	for i := 0; i < 5; i++ {
		kj.Funcs = append(kj.Funcs, fmt.Sprintf("vh/text.VH_C11K_%02d", i))
	}
	p.Jobs = append(p.Jobs, kj)
	p.ExpectReach[kj.Name] = []string{"c11kw"}
	p.Bounds = map[string]interface{}{
		"cases":         "147 schema ASTs: 47 single-construct schemas (enums over every base type incl. negative hexadecimal members, [flags], structs with every type-expression form, readonly, integer and 4-character opcodes, messages, unions, consts of every literal form, imports, go_package, doc comments, block comments in bodies, deprecations on first/last/union members, end-of-line comments, consts followed by documented definitions, several tagged fields in one record, doc comments in front of [flags] and [opcode]) + all 100 ordered pairs of 10 attributed definition kinds (each pair one definition per line, each definition on one line, and both on the same line)",
		"layouts":       "LF / CRLF, space / tab indentation, one-line / multi-line; one separator byte symbolic over {space, tab}; nothing, a space or a tab between the end of a block comment and the line end",
		"thorough":      "Deep mode: the first definition of every ordered pair and the structural cases keep their symbolic digits and identifier characters (quick: concrete), two identifier characters symbolic, all six layouts on every case without docs",
		"keyword_names": "each of the 16 keywords as the name of an enum member, struct field, message field, union branch and definition: if the text is accepted the element is in the File under that name",
		"outside":       "schemas outside the case list; comment placements other than directly above a definition, field or option; more than one symbolic character per identifier",
	}
	p.Explanation = "bounded symbolic execution of bebop.ReadFile (tokenizer, token tree, parser, flag expression evaluator) on printed ASTs with symbolic details; the File returned is compared field by field with the File built from the AST"
	return p, nil
}

func PrepareC16(ctx *Ctx) (*Prepared, error) {
	p := prepareTextShards(ctx, "C16", textCases, nil, textBudget(ctx))
	p.Bounds = map[string]interface{}{"cases": "the 147 schema ASTs of C11 restricted to texts ReadFile accepts, in the same layouts", "compared": "every File field except comments and comment-derived tags"}
	p.Explanation = "bounded symbolic execution of bebop.Format followed by bebop.ReadFile on its output; the two Files must be equal up to comments"
	return p, nil
}

func PrepareC17(ctx *Ctx) (*Prepared, error) {
	p := prepareTextShards(ctx, "C17", textCases, nil, textBudget(ctx))
	p.Bounds = map[string]interface{}{"cases": "the 147 schema ASTs of C11 restricted to texts ReadFile accepts and Format processes without error"}
	p.Explanation = "bounded symbolic execution of bebop.Format applied twice; the two outputs are compared byte for byte (symbolic bytes included)"
	return p, nil
}

func PrepareC10(ctx *Ctx) (*Prepared, error) {
	hdir := filepath.Join(ctx.Verif, "harness")
	p := &Prepared{Targets: map[string]*ReplayTarget{}, ExpectReach: map[string][]string{}}
	add := func(fn string, reach string) {
		j := &Job{Name: "C10-" + fn, Dir: hdir, Patterns: []string{"./text"}, Funcs: []string{"vh/text." + fn},
			Opt: JobOptions{LoopBudget: 100000, AllocLimit: 1 << 22, TimeoutMs: 20000, EnumCap: 300, CheckRewrites: true, Witnesses: 2, FuncBudgetS: textBudget(ctx)}}
		p.Jobs = append(p.Jobs, j)
		p.ExpectReach[j.Name] = []string{reach}
	}
	for s := 0; s < 48; s++ {
		add(fmt.Sprintf("VH_C10A_%02d", s), "c10a")
	}
	for s := 0; s < 48; s++ {
		add(fmt.Sprintf("VH_C10R_%02d", s), "c10a")
	}
	for s := 0; s < 4; s++ {
		add(fmt.Sprintf("VH_C10B_%02d", s), "c10b")
	}
	if ctx.Tier == "thorough" {
		for s := 0; s < 48; s++ {
			add(fmt.Sprintf("VH_C10A2_%02d", s), "c10a")
		}
	}
	p.Targets["vh/text"] = textTarget(ctx)
	p.Programs = 1
	p.Assumptions = textAssumptions()
	p.Stubs = []string{"vstub.FragReader (fault injection)", "fmt.* approximated"}
	p.Bounds = map[string]interface{}{
		"hosts":   "11 valid host schemas (struct, message, enum, [flags], union, consts, attributes/comments/import, empty bodies, no final newline, string literals with escapes, multi-line union with comments)",
		"splice":  "1 (quick) / 1 and 2 (thorough) fully symbolic bytes (all 256 values each, hence every 1-2 byte UTF-8 prefix) inserted at every byte offset of every host; 1 fully symbolic byte replacing the byte at every offset (so a delimiter can vanish)",
		"tail":    "the appended definition is a fixed struct",
		"faults":  "underlying reader fails with a non-EOF error at every offset of every host, with and without data returned alongside the error, for good or once (transient)",
		"outside": "windows longer than 2 bytes, several windows, hosts outside the list",
	}
	p.Explanation = "bounded symbolic execution of bebop.ReadFile on a valid schema with a symbolic byte window: absence of panics and runaway loops on every path; when the text and the text plus one more definition are both accepted, the definition must be present"
	return p, nil
}

func prepareTextFuncs(ctx *Ctx, prop string, funcs []string, reach string) *Prepared {
	hdir := filepath.Join(ctx.Verif, "harness")
	p := &Prepared{Targets: map[string]*ReplayTarget{}, ExpectReach: map[string][]string{}}
	for _, fn := range funcs {
		j := &Job{Name: prop + "-" + fn, Dir: hdir, Patterns: []string{"./text"}, Funcs: []string{"vh/text." + fn},
			Opt: JobOptions{LoopBudget: 100000, AllocLimit: 1 << 22, TimeoutMs: 20000, EnumCap: 300, CheckRewrites: true, Witnesses: 2, FuncBudgetS: textBudget(ctx)}}
		p.Jobs = append(p.Jobs, j)
		if reach != "" {
			p.ExpectReach[j.Name] = []string{reach}
		}
	}
	p.Targets["vh/text"] = textTarget(ctx)
	p.Programs = 1
	p.Assumptions = textAssumptions()
	p.Stubs = []string{"vstub.FragReader", "fmt.* approximated", "strconv.ParseFloat native on concrete input"}
	return p
}

func PrepareC13(ctx *Ctx) (*Prepared, error) {
	var funcs []string
	for w := 0; w < 6; w++ {
		funcs = append(funcs, fmt.Sprintf("VH_C13D_%02d", w), fmt.Sprintf("VH_C13N_%02d", w))
	}
	funcs = append(funcs, "VH_C13D_06", "VH_C13D_07")
	for w := 1; w < 8; w++ {
		funcs = append(funcs, fmt.Sprintf("VH_C13F_%02d", w))
	}
	for w := 0; w < 11; w++ {
		funcs = append(funcs, fmt.Sprintf("VH_C13U_%02d", w))
	}
	for w := 0; w < 8; w++ {
		funcs = append(funcs, fmt.Sprintf("VH_C13R_%02d", w))
	}
	funcs = append(funcs, "VH_C13P_00", "VH_C13C_00", "VH_C13G_OK")
	for v := 0; v < 3; v++ {
		for _, f := range "abcm" {
			funcs = append(funcs, fmt.Sprintf("VH_C13G_%d%c", v, f))
		}
	}
	p := prepareTextFuncs(ctx, "C13", funcs, "c13")
	p.Bounds = map[string]interface{}{
		"error_classes": "duplicate names (struct/message fields, enum options, definitions of every pair of kinds, inline union branch vs top level, consts) with the two names symbolic; duplicate enum values (unsigned and signed), message and union indices, opcodes over every pair of record kinds, message index zero, with the numbers symbolic; undefined type reference at 7 kinds of site with the referenced name symbolic; definitions named like each of the 14 primitives; enum literals (3-5 symbolic digits, positive and negative) against each base type's range plus the 64-bit boundaries, the same for literal [flags] members; duplicate field names, primitive names and self-containment inside inline union branches; numeric const literals that cannot be read as their type; const literals of the wrong kind; struct containment over 3 structs with two symbolic field types each (every graph) plus a message that breaks recursion",
		"oracle":        "rejected (ReadFile or Validate returns an error) exactly when the reference predicate over the symbolic parts says the injected error is present",
		"outside":       "errors injected into larger schemas, several errors at once, array/map-mediated self-reference (the property does not fix it), integer consts out of range for their width (idem)",
	}
	p.Explanation = "bounded symbolic execution of bebop.ReadFile + File.Validate on schema texts with symbolic names and numbers; acceptance is compared with a reference predicate on every path"
	return p, nil
}

func PrepareC15(ctx *Ctx) (*Prepared, error) {
	var funcs []string
	for b := 0; b < 8; b++ {
		if ctx.Tier == "thorough" {
			funcs = append(funcs, fmt.Sprintf("VH_C15LT_%02d", b))
		} else {
			funcs = append(funcs, fmt.Sprintf("VH_C15L_%02d", b))
		}
		for sh := 0; b > 0 && sh < 4; sh++ {
			funcs = append(funcs, fmt.Sprintf("VH_C15F_%02d_%d", b, sh))
		}
	}
	funcs = append(funcs, "VH_C15O_00")
	p := prepareTextFuncs(ctx, "C15", funcs, "")
	p.Bounds = map[string]interface{}{
		"scope":    "text -> File half only: the value ReadFile stores for enum members, [flags] expressions and opcodes. The emission half (formatting of those values into Go source and the meaning of the emitted literals) is string templating judged by the Go compiler and is outside this check.",
		"literals": "decimal with 1-3 (thorough 1-5) symbolic digits, hex with 1-2 (thorough 1-4) symbolic digits in either case, negative decimal for signed bases; all 8 base types; values assumed representable",
		"flags":    "fully parenthesised expressions of up to two operators out of {|, &, <<, >>} over literal operands with one symbolic digit (0x0-0xf in either case, 10-19) and earlier members, 4 shapes, 7 base types; intermediate and final values assumed representable, shift counts < 8",
		"opcodes":  "4 symbolic printable characters; 4 symbolic decimal digits; 3 symbolic hex digits; on struct, message and union",
		"outside":  "unparenthesised mixed-operator expressions (the property fixes no precedence), longer literals, consts (their text is carried verbatim; covered by C11)",
	}
	p.Explanation = "bounded symbolic execution of bebop.ReadFile (strconv.ParseInt/ParseUint on symbolic digits, the generic flag evaluators as instantiated by go/ssa, bytesToOpCode) against positional-notation / bit-operation reference values"
	return p, nil
}
