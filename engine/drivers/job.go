// Package drivers orchestrates property checks: it prepares the code to
// analyse from /repo's working tree, shards harness runs over worker
// processes, replays counterexamples natively, matches them against the
// known-findings file and writes evidence.
package drivers

import (
	"encoding/json"
	"fmt"
	"os"
	"os/exec"
	"path/filepath"
	"runtime/debug"
	"runtime/pprof"
	"sort"
	"strings"
	"sync"
	"time"

	"gosym/interp"
	"gosym/smt"
	"gosym/term"
)

// Job is one unit of engine work: load some packages, run some harnesses.
type Job struct {
	First    bool              `json:"first,omitempty"` // scheduled before the others (so that an overall time budget does not starve it)
	Name     string            `json:"name"`
	Dir      string            `json:"dir"`      // module directory to load from
	Patterns []string          `json:"patterns"` // package patterns
	Overlay  map[string]string `json:"overlay"`  // virtual path -> real file
	Funcs    []string          `json:"funcs"`    // pkgpath.Func entry points
	Opt      JobOptions        `json:"opt"`
	Meta     map[string]string `json:"meta"` // free-form (record kind etc.), copied to results
}

type JobOptions struct {
	LoopBudget    int     `json:"loop_budget"`
	AllocLimit    int64   `json:"alloc_limit"`
	TimeoutMs     int     `json:"timeout_ms"`
	MaxPaths      int     `json:"max_paths"`
	NoRewrite     bool    `json:"no_rewrite"`
	CheckRewrites bool    `json:"check_rewrites"`
	EnumCap       int     `json:"enum_cap"`
	InstrBudget   int64   `json:"instr_budget"`
	Witnesses     int     `json:"witnesses"`
	FuncBudgetS   float64 `json:"func_budget_s"`
	ShardN        int     `json:"shard_n,omitempty"` // path-space sharding of the job's functions (see interp.Options)
	ShardI        int     `json:"shard_i,omitempty"`
	ShardDepth    int     `json:"shard_depth,omitempty"`
}

type FuncResult struct {
	Func         string              `json:"func"`
	Paths        int                 `json:"paths"`
	PathsByEnd   map[string]int      `json:"paths_by_end"`
	Instrs       int64               `json:"instrs"`
	Obligations  int                 `json:"obligations"`
	ByRewriting  int                 `json:"by_rewriting"`
	BySolver     int                 `json:"by_solver"`
	Inconclusive int                 `json:"inconclusive"`
	InconReasons map[string]int      `json:"incon_reasons"`
	AssertIDs    map[string]int      `json:"assert_ids"`
	Violations   []*interp.Violation `json:"violations"`
	Witnesses    [][]uint64          `json:"witnesses"`
	Forks        int                 `json:"forks"`
	BoundCuts    int                 `json:"bound_cuts"`
	RewriteChk   int                 `json:"rewrite_checks"`
	WallS        float64             `json:"wall_s"`
	Error        string              `json:"error,omitempty"`
}

type JobResult struct {
	Job        string              `json:"job"`
	Meta       map[string]string   `json:"meta"`
	Funcs      []*FuncResult       `json:"funcs"`
	LoadErrors map[string][]string `json:"load_errors"`
	Encoded    []string            `json:"encoded"`           // functions interpreted
	Skipped    bool                `json:"skipped,omitempty"` // not run: the check's overall time budget was used up
	Solver     smt.Stats           `json:"solver"`
	Solver2    smt.Stats           `json:"solver2"`
	InitWarn   []string            `json:"init_warnings"`
	LoadS      float64             `json:"load_s"`
	WallS      float64             `json:"wall_s"`
	Fatal      string              `json:"fatal,omitempty"`
}

// RunJob executes a job in this process.
func RunJob(j *Job) *JobResult {
	t0 := time.Now()
	res := &JobResult{Job: j.Name, Meta: j.Meta}
	term.Rewrite = !j.Opt.NoRewrite
	var overlay map[string][]byte
	if len(j.Overlay) > 0 {
		overlay = map[string][]byte{}
		for virt, real := range j.Overlay {
			b, err := os.ReadFile(real)
			if err != nil {
				res.Fatal = err.Error()
				return res
			}
			overlay[virt] = b
		}
	}
	l, err := interp.Load(j.Dir, overlay, j.Patterns...)
	if err != nil {
		res.Fatal = "load: " + err.Error()
		return res
	}
	res.LoadErrors = l.Errors
	res.LoadS = time.Since(t0).Seconds()
	encoded := map[string]bool{}
	var eng *interp.Engine
	newEngine := func() error {
		if eng != nil {
			res.Solver = addStats(res.Solver, eng.S.Stats)
			if eng.S2 != nil {
				res.Solver2 = addStats(res.Solver2, eng.S2.Stats)
			}
			eng.Close()
		}
		e, err := interp.New(l.Prog, interp.Options{LoopBudget: j.Opt.LoopBudget, AllocLimit: j.Opt.AllocLimit,
			TimeoutMs: j.Opt.TimeoutMs, MaxPaths: j.Opt.MaxPaths, CheckRewrites: j.Opt.CheckRewrites,
			EnumCap: j.Opt.EnumCap, InstrBudget: j.Opt.InstrBudget, FuncBudgetS: j.Opt.FuncBudgetS,
			ShardN: j.Opt.ShardN, ShardI: j.Opt.ShardI, ShardDepth: j.Opt.ShardDepth})
		if err != nil {
			return err
		}
		if err := e.InitAll(l); err != nil {
			return err
		}
		res.InitWarn = e.InitWarnings
		eng = e
		return nil
	}
	if err := newEngine(); err != nil {
		res.Fatal = "engine: " + err.Error()
		return res
	}
	for _, name := range j.Funcs {
		fr := &FuncResult{Func: name}
		res.Funcs = append(res.Funcs, fr)
		fn, err := l.FindFunc(name)
		if err != nil {
			pk := name[:strings.LastIndex(name, ".")]
			if es, ok := l.Errors[pk]; ok {
				msg := strings.Join(es, "; ")
				if len(msg) > 300 {
					msg = msg[:300]
				}
				fr.Error = "not-analysable: does not compile: " + msg
			} else {
				fr.Error = err.Error()
			}
			continue
		}
		t1 := time.Now()
		eng.ResetStats()
		if j.Opt.Witnesses > 0 {
			eng.MaxWitness = j.Opt.Witnesses
		}
		func() {
			defer func() {
				if r := recover(); r != nil {
					fr.Error = fmt.Sprintf("engine panic: %v", r)
					// the engine state is unreliable now: start a fresh one
					if err := newEngine(); err != nil {
						fr.Error += "; restart failed: " + err.Error()
					}
				}
			}()
			eng.Run(fn)
		}()
		st := eng.Stats
		fr.Paths, fr.PathsByEnd, fr.Instrs = st.Paths, st.PathsByEnd, st.Instrs
		fr.Obligations, fr.ByRewriting, fr.BySolver = st.Obligations, st.ByRewriting, st.BySolver
		fr.Inconclusive, fr.InconReasons, fr.AssertIDs = st.Inconclusive, st.InconReasons, st.AssertIDs
		fr.Forks, fr.RewriteChk = st.Forks, st.RewriteChecks
		fr.BoundCuts = st.BoundCuts
		for _, k := range eng.VOrder {
			fr.Violations = append(fr.Violations, eng.Viol[k])
		}
		fr.Witnesses = eng.Witness
		fr.WallS = time.Since(t1).Seconds()
		for f := range st.Funcs {
			encoded[f] = true
		}
	}
	if eng != nil {
		res.Solver = addStats(res.Solver, eng.S.Stats)
		if eng.S2 != nil {
			res.Solver2 = addStats(res.Solver2, eng.S2.Stats)
		}
		eng.Close()
	}
	for f := range encoded {
		res.Encoded = append(res.Encoded, f)
	}
	sort.Strings(res.Encoded)
	res.WallS = time.Since(t0).Seconds()
	return res
}

func addStats(a, b smt.Stats) smt.Stats {
	a.Queries += b.Queries
	a.Sat += b.Sat
	a.Unsat += b.Unsat
	a.Unknown += b.Unknown
	a.Errors += b.Errors
	a.Time += b.Time
	a.ValuesTime += b.ValuesTime
	a.SendTime += b.SendTime
	if b.MaxQuery > a.MaxQuery {
		a.MaxQuery = b.MaxQuery
	}
	return a
}

// RunJobs runs jobs in worker processes (self-exec "vcheck worker"), par at a time.
//
// deadline (zero = none): jobs that have not started by then are not run and
// come back with Skipped set; the caller reports them as undecided.
func RunJobs(jobs []*Job, par int, workDir string, deadline time.Time) []*JobResult {
	self, _ := os.Executable()
	results := make([]*JobResult, len(jobs))
	var wg sync.WaitGroup
	sem := make(chan struct{}, par)
	for i, j := range jobs {
		wg.Add(1)
		sem <- struct{}{}
		if !deadline.IsZero() && time.Now().After(deadline) {
			results[i] = &JobResult{Job: j.Name, Meta: j.Meta, Skipped: true}
			<-sem
			wg.Done()
			continue
		}
		go func(i int, j *Job) {
			defer wg.Done()
			defer func() { <-sem }()
			jf := filepath.Join(workDir, fmt.Sprintf("job-%d.json", i))
			rf := filepath.Join(workDir, fmt.Sprintf("res-%d.json", i))
			b, _ := json.Marshal(j)
			os.WriteFile(jf, b, 0o644)
			cmd := exec.Command(self, "worker", jf, rf)
			cmd.Stderr = os.Stderr
			cmd.Env = goEnv()
			err := cmd.Run()
			// (own copy of Meta: shards of one function share their job's map, and
			// decoding the result writes into it)
			r := &JobResult{Job: j.Name, Meta: map[string]string{}}
			for k, v := range j.Meta {
				r.Meta[k] = v
			}
			if data, rerr := os.ReadFile(rf); rerr == nil {
				if jerr := json.Unmarshal(data, r); jerr != nil {
					r.Fatal = "bad result: " + jerr.Error()
				}
			} else {
				r.Fatal = fmt.Sprintf("worker failed: %v", err)
			}
			os.Remove(jf)
			os.Remove(rf)
			results[i] = r
		}(i, j)
	}
	wg.Wait()
	return results
}

func goEnv() []string {
	env := os.Environ()
	return append(env, "GOFLAGS=-mod=mod", "GOPROXY=off", "GOSUMDB=off", "GOTOOLCHAIN=local")
}

// Worker is the entry point of "vcheck worker job.json result.json".
func Worker(jobFile, resFile string) {
	if pf := os.Getenv("GOSYM_CPUPROFILE"); pf != "" {
		if f, err := os.Create(pf); err == nil {
			pprof.StartCPUProfile(f)
			defer pprof.StopCPUProfile()
		}
	}
	debug.SetGCPercent(400) // memory is plentiful; the interpreter allocates many short-lived values
	data, err := os.ReadFile(jobFile)
	if err != nil {
		fmt.Fprintln(os.Stderr, err)
		os.Exit(2)
	}
	var j Job
	if err := json.Unmarshal(data, &j); err != nil {
		fmt.Fprintln(os.Stderr, err)
		os.Exit(2)
	}
	r := RunJob(&j)
	b, _ := json.Marshal(r)
	if err := os.WriteFile(resFile, b, 0o644); err != nil {
		fmt.Fprintln(os.Stderr, err)
		os.Exit(2)
	}
}

func shortFunc(s string) string {
	if i := strings.LastIndex(s, "/"); i >= 0 {
		return s[i+1:]
	}
	return s
}
