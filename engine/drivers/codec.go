package drivers

import (
	"encoding/json"
	"fmt"
	"os"
	"os/exec"
	"path/filepath"
	"regexp"
	"sort"
	"strings"

	"gosym/corpus"
	"gosym/interp"
)

// OptSet is a combination of generator options.
type OptSet struct {
	Name    string
	Unsafe  bool
	Shared  bool
	Tags    bool
	Private bool
	PtrRecv bool
}

var BaseOpts = OptSet{Name: "base", Unsafe: true}

type genItem struct {
	Bop     string `json:"bop"`
	Out     string `json:"out"`
	Package string `json:"package"`
	Unsafe  bool   `json:"unsafe"`
	Shared  bool   `json:"shared"`
	Tags    bool   `json:"tags"`
	Private bool   `json:"private"`
	PtrRecv bool   `json:"ptr_recv"`
	// Combined selects ImportGenerationModeCombined (default: separate)
	Combined bool   `json:"combined,omitempty"`
	Err      string `json:"err,omitempty"`
}

type corpusEntry struct {
	Pkg  *corpus.Pkg
	Opt  OptSet
	Dir  string
	Name string // unique package name
	Err  string
}

// buildCorpus writes the schemas, runs the real generator over them and
// writes the glue; returns the module directory.
func buildCorpus(ctx *Ctx, pkgs []*corpus.Pkg, opts []OptSet, tier corpus.Tier, optFilter func(*corpus.Pkg, OptSet) bool) (string, []*corpusEntry, error) {
	mod := filepath.Join(ctx.Work, "corp")
	if err := os.MkdirAll(mod, 0o755); err != nil {
		return "", nil, err
	}
	gomod := fmt.Sprintf("module corp\n\ngo 1.21\n\nrequire (\n\tgithub.com/200sc/bebop v0.0.0\n\tvh v0.0.0\n)\n\nreplace github.com/200sc/bebop => %s\n\nreplace vh => %s\n", ctx.Repo, filepath.Join(ctx.Verif, "harness"))
	if err := os.WriteFile(filepath.Join(mod, "go.mod"), []byte(gomod), 0o644); err != nil {
		return "", nil, err
	}
	if b, err := os.ReadFile(filepath.Join(ctx.Repo, "go.sum")); err == nil {
		os.WriteFile(filepath.Join(mod, "go.sum"), b, 0o644)
	}
	// build bopgen from the current tree
	bopgen := filepath.Join(ctx.Work, "bopgen")
	cmd := exec.Command("go", "build", "-o", bopgen, "./cmd/bopgen")
	cmd.Dir = filepath.Join(ctx.Verif, "harness")
	cmd.Env = goEnv()
	if out, err := cmd.CombinedOutput(); err != nil {
		return "", nil, fmt.Errorf("building bopgen against %s failed (does the repository compile?): %v\n%s", ctx.Repo, err, out)
	}
	var entries []*corpusEntry
	var items, depItems []*genItem
	var depOwner []int // entry index of each dep item
	for _, o := range opts {
		for _, p := range pkgs {
			if optFilter != nil && !optFilter(p, o) {
				continue
			}
			name := p.Name
			if len(opts) > 1 || o.Name != "base" {
				name = p.Name + "_" + o.Name
			}
			dir := filepath.Join(mod, name)
			os.MkdirAll(dir, 0o755)
			bop := filepath.Join(dir, "schema.bop")
			cp := *p
			cp.Name = name
			if p.ImportMode != "" {
				// two files: the importing schema and dep/dep.bop
				os.MkdirAll(filepath.Join(dir, "dep"), 0o755)
				os.WriteFile(bop, []byte(p.Schema.MainBop("corp/"+name)), 0o644)
				depBop := filepath.Join(dir, "dep", "dep.bop")
				depPkg := "corp/" + name + "/dep"
				if p.ImportMode == "combined" {
					depPkg = "" // combined mode merges the consts of both files: one go_package only
				}
				os.WriteFile(depBop, []byte(p.Schema.DepBop(depPkg)), 0o644)
				if p.ImportMode == "separate" {
					depItems = append(depItems, &genItem{Bop: depBop, Out: filepath.Join(dir, "dep", "gen.go"), Package: "dep", Unsafe: o.Unsafe, Shared: o.Shared, Tags: o.Tags, Private: o.Private, PtrRecv: o.PtrRecv})
					depOwner = append(depOwner, len(entries))
				}
			} else {
				os.WriteFile(bop, []byte(p.Schema.Bop()), 0o644)
			}
			entries = append(entries, &corpusEntry{Pkg: &cp, Opt: o, Dir: dir, Name: name})
			items = append(items, &genItem{Bop: bop, Out: filepath.Join(dir, "gen.go"), Package: name, Unsafe: o.Unsafe, Shared: o.Shared, Tags: o.Tags, Private: o.Private, PtrRecv: o.PtrRecv, Combined: p.ImportMode == "combined"})
		}
	}
	nMain := len(items)
	items = append(items, depItems...)
	jf, rf := filepath.Join(ctx.Work, "bopgen-in.json"), filepath.Join(ctx.Work, "bopgen-out.json")
	b, _ := json.Marshal(items)
	os.WriteFile(jf, b, 0o644)
	cmd = exec.Command(bopgen, jf, rf)
	if out, err := cmd.CombinedOutput(); err != nil {
		return "", nil, fmt.Errorf("bopgen: %v\n%s", err, out)
	}
	data, err := os.ReadFile(rf)
	if err != nil {
		return "", nil, err
	}
	var res []*genItem
	if err := json.Unmarshal(data, &res); err != nil {
		return "", nil, err
	}
	for i := nMain; i < len(res); i++ {
		if res[i].Err != "" {
			entries[depOwner[i-nMain]].Err = "imported file: " + res[i].Err
		}
	}
	for i, r := range res[:nMain] {
		e := entries[i]
		if e.Err != "" {
			continue
		}
		if r.Err != "" {
			e.Err = r.Err
			continue
		}
		glue := corpus.Glue(e.Pkg, corpus.Opts{Private: e.Opt.Private, NoMust: !e.Opt.Unsafe}, tier, corpus.HarnessSrc)
		os.WriteFile(filepath.Join(e.Dir, "zz_glue.go"), []byte(glue), 0o644)
	}
	os.Remove(jf)
	os.Remove(rf)
	os.Remove(bopgen)
	return mod, entries, nil
}

var (
	reBbpField = regexp.MustCompile(`\bbbp\.[A-Za-z_][A-Za-z0-9_]*`)
	reNumVar   = regexp.MustCompile(`\b(ln|i|k|v|elem)\d+\b`)
	rePkgQual  = regexp.MustCompile(`\b[a-z][a-z0-9_]*\.`)
	rePrimType = regexp.MustCompile(`\b(bool|byte|uint8|uint16|int16|uint32|int32|uint64|int64|float32|float64|string|time\.Time)\b|\[16\]byte`)
	reMakeType = regexp.MustCompile("make\\((\\[\\]|map\\[[^\\]]*\\])+T")
)

// codecNormalize maps a violation inside generated code to a site signature
// that does not depend on the particular record: type names become record
// kinds, field names and counters are abstracted.
func codecNormalize(kinds map[string]map[string]string) func(j *Job, pkg string, v *interp.Violation) Sig {
	return func(j *Job, pkg string, v *interp.Violation) Sig {
		s := Sig{Kind: v.Kind, ID: v.ID, Func: v.Func, Stmt: v.Stmt}
		fn := v.Func
		stmt := v.Stmt
		site := v.Site
		// attribute failures inside iohelp / the standard library to the
		// generated statement that called into them
		if !strings.Contains(site, "/gen.go:") && !strings.Contains(site, "/zz_glue.go:") {
			for _, f := range v.Stack {
				if strings.Contains(f.Site, "/gen.go:") {
					s.ID = v.ID + " in " + shortFunc(v.Func)
					fn, stmt, site = f.Func, f.Stmt, f.Site
					if i := strings.LastIndex(fn, "/"); i >= 0 {
						fn = fn[i+1:]
					}
					break
				}
			}
		}
		inGenerated := strings.Contains(site, "/gen.go:")
		// strip package qualifier
		fn0 := fn
		for pkg, km := range kinds {
			if !strings.Contains(fn, pkg+".") {
				continue
			}
			fn = strings.ReplaceAll(fn, pkg+".", "")
			// longest names first
			var names []string
			for n := range km {
				names = append(names, n)
			}
			sort.Slice(names, func(a, b int) bool { return len(names[a]) > len(names[b]) })
			for _, n := range names {
				for _, spelled := range []string{n, strings.ToLower(n[:1]) + n[1:]} {
					re := regexp.MustCompile(`\b` + regexp.QuoteMeta(spelled) + `\b`)
					fn = re.ReplaceAllString(fn, km[n])
					if inGenerated {
						stmt = re.ReplaceAllString(stmt, "T")
					}
				}
			}
			if s.Class == "" {
				// class: kind of the receiver type
				for _, n := range names {
					if strings.Contains(fn0, n+")") || strings.Contains(fn0, strings.ToLower(n[:1])+n[1:]+")") {
						s.Class = km[n]
						break
					}
				}
			}
		}
		if inGenerated {
			stmt = reBbpField.ReplaceAllString(stmt, "bbp.F")
			if strings.Contains(stmt, "make(") {
				stmt = rePrimType.ReplaceAllString(stmt, "T")
				stmt = reMakeType.ReplaceAllString(stmt, "make([]T")
			}
			stmt = reNumVar.ReplaceAllString(stmt, "${1}N")
		}
		if strings.HasPrefix(fn, "VH_") || strings.Contains(fn, ".VH_") || strings.Contains(fn, "vEncode") {
			fn = fn[strings.LastIndex(fn, ".")+1:]
		}
		fn = strings.TrimPrefix(fn, "(*")
		fn = strings.TrimPrefix(fn, "(")
		fn = strings.Replace(fn, ").", ".", 1)
		s.Func, s.Stmt = fn, stmt
		if s.Class == "" {
			// failures in harness code: classify by the kind of the record under test
			if km, ok := kinds[strings.TrimPrefix(pkg, "corp/")]; ok {
				s.Class = km["Rec"]
			}
		}
		return s
	}
}

// codecJobs groups corpus entries into engine jobs.
func codecJobs(ctx *Ctx, mod string, entries []*corpusEntry, harnesses []string, harnessesFor func(*corpus.Pkg, string) []string, opt JobOptions, perJob int, p *Prepared) {
	kinds := map[string]map[string]string{}
	var group []*corpusEntry
	hints := loadHints(ctx)
	shapeOf := map[string]string{}
	p.CostKey = func(fn string) string {
		// corp/r0131.VH_C06 -> shape|VH_C06 (package numbers change with the corpus)
		i := strings.LastIndex(fn, ".")
		return shapeOf[strings.TrimPrefix(fn[:i], "corp/")] + "|" + fn[i+1:]
	}
	flush := func() {
		if len(group) == 0 {
			return
		}
		j := &Job{Name: fmt.Sprintf("%s..%s", group[0].Name, group[len(group)-1].Name), Dir: mod, Opt: opt, Meta: map[string]string{}}
		for _, e := range group {
			j.Patterns = append(j.Patterns, "./"+e.Name)
			hs := harnesses
			if harnessesFor != nil {
				hs = harnessesFor(e.Pkg, ctx.Tier)
			}
			for _, h := range hs {
				j.Funcs = append(j.Funcs, "corp/"+e.Name+"."+h)
			}
		}
		p.Jobs = append(p.Jobs, j)
		group = nil
	}
	for _, e := range entries {
		if e.Err != "" {
			p.NotAnalysable[e.Name+" ("+e.Pkg.Shape+")"] = "generator: " + e.Err
			continue
		}
		kinds[e.Name] = e.Pkg.Schema.Kinds()
		shapeOf[e.Name] = e.Pkg.Shape + "/" + e.Opt.Name
		// a package known to be heavy gets a job of its own
		hs := harnesses
		if harnessesFor != nil {
			hs = harnessesFor(e.Pkg, ctx.Tier)
		}
		cost := 0.0
		for _, h := range hs {
			cost += hints.cost(ctx, shapeOf[e.Name]+"|"+h)
		}
		if cost > 15 && len(hs) > 0 {
			// heavy: one job per harness function, and a function expected to run
			// longer than 30 s is split into path-space shards
			flush()
			for _, h := range hs {
				c := hints.cost(ctx, shapeOf[e.Name]+"|"+h)
				n := shardCount(c)
				for i := 0; i < n; i++ {
					j := &Job{Name: fmt.Sprintf("%s.%s", e.Name, h), Dir: mod, Opt: opt, Meta: map[string]string{},
						Patterns: []string{"./" + e.Name}, Funcs: []string{"corp/" + e.Name + "." + h}}
					if n > 1 {
						j.Name += fmt.Sprintf("#%d/%d", i, n)
						j.Opt.ShardN, j.Opt.ShardI, j.Opt.ShardDepth = n, i, shardDepth
					}
					p.Jobs = append(p.Jobs, j)
				}
			}
			continue
		}
		group = append(group, e)
		if len(group) >= perJob {
			flush()
		}
	}
	flush()
	p.Normalize = codecNormalize(kinds)
}
