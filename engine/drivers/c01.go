package drivers

import (
	"fmt"
	"path/filepath"
	"strings"

	"gosym/corpus"
)

type codecSpec struct {
	harnesses    []string
	reach        []string
	loop         int
	perJob       int
	opts         []OptSet
	filter       func(p *corpus.Pkg) bool
	profile      string
	harnessesFor func(p *corpus.Pkg, tier string) []string
	optFilter    func(p *corpus.Pkg, o OptSet) bool
}

func tierOf(ctx *Ctx) corpus.Tier {
	if ctx.Tier == "thorough" {
		return corpus.Thorough
	}
	return corpus.Quick
}

func prepareCodec(ctx *Ctx, spec codecSpec) (*Prepared, error) {
	tier := tierOf(ctx)
	prof := spec.profile
	if prof == "" {
		prof = "full"
	}
	pkgs := corpus.ShapesProfile(ctx.Tier, prof)
	if spec.filter != nil {
		var f []*corpus.Pkg
		for _, p := range pkgs {
			if spec.filter(p) {
				f = append(f, p)
			}
		}
		pkgs = f
	}
	opts := spec.opts
	if opts == nil {
		opts = []OptSet{BaseOpts}
	}
	mod, entries, err := buildCorpus(ctx, pkgs, opts, tier, spec.optFilter)
	if err != nil {
		return nil, err
	}
	p := &Prepared{Targets: map[string]*ReplayTarget{}, ExpectReach: map[string][]string{}, NotAnalysable: map[string]string{}}
	jo := JobOptions{LoopBudget: 4096, AllocLimit: 1 << 16, TimeoutMs: 20000, EnumCap: 64, CheckRewrites: true, Witnesses: 1, FuncBudgetS: 90}
	if ctx.Tier == "thorough" {
		jo.TimeoutMs = 120000
		jo.FuncBudgetS = 300
	}
	perJob := spec.perJob
	if perJob == 0 {
		perJob = 2
	}
	codecJobs(ctx, mod, entries, spec.harnesses, spec.harnessesFor, jo, perJob, p)
	for _, e := range entries {
		if e.Err != "" {
			continue
		}
		p.Targets["corp/"+e.Name] = &ReplayTarget{ModDir: mod, PkgPath: "corp/" + e.Name, PkgDir: e.Dir, PkgName: e.Name, Vstub: "vh/vstub"}
	}
	p.Programs = len(entries)
	p.Bounds = map[string]interface{}{
		"corpus":        "one package per record: 29 leaves (14 primitives, enums over 7 base types, 8 record leaves) x type constructors {T, T[], map[uint32,T], map[string,T], T[][], map[uint32,T[]], map[uint32,T][], map[uint32,map[string,T]]} x contexts {struct, readonly struct, message, union branch} (quick tier: depth<=1 over all leaves in struct/message, the rest over a leaf subset) + 12 map key types; each record followed by a sentinel field",
		"array_len":     tier.MaxArr,
		"string_len":    tier.MaxStr,
		"map_entries":   tier.MaxMap,
		"nesting_depth": tier.MaxDepth,
		"leaves":        "every scalar leaf fully symbolic (all bit patterns)",
		"outside":       "longer containers/strings, deeper nesting, schemas outside the grammar (imports, several evolved fields, identifier collisions)",
	}
	p.Assumptions = []string{
		"record values satisfy the documented validity predicate: unions carry exactly one member, map keys pairwise distinct and not NaN, dates are the zero time or time.Unix(0,100*t) with 0<|t|<=2^63/100",
		"64-bit little-endian target; unsafe casts modelled as byte-cell access",
		"time.Time abstract model (isZero, unixNano); floats as bit patterns",
		"map iteration in insertion order except where the harness asks for all permutations",
	}
	p.Stubs = []string{"vstub.FragReader", "vstub.Sink", "vstub.FaultWriter", "time.Time abstract model", "fmt.* approximated"}
	p.Explanation = "bounded symbolic execution of the code emitted by /repo's generator (regenerated on this run) and of /repo/iohelp"
	_ = filepath.Join
	return p, nil
}

func PrepareC01(ctx *Ctx) (*Prepared, error) {
	return prepareCodec(ctx, codecSpec{harnesses: []string{"VH_C01"}})
}

func PrepareC02(ctx *Ctx) (*Prepared, error) {
	p, err := prepareCodec(ctx, codecSpec{harnesses: []string{"VH_C02"}})
	if p != nil {
		p.AllRuns = true
	}
	return p, err
}

func PrepareC03(ctx *Ctx) (*Prepared, error) {
	p, err := prepareCodec(ctx, codecSpec{harnesses: []string{"VH_C03"}})
	if p != nil {
		p.AllRuns = true
	}
	return p, err
}

func PrepareC05(ctx *Ctx) (*Prepared, error) {
	return prepareCodec(ctx, codecSpec{profile: "lite", harnesses: []string{"VH_C05"}})
}

func PrepareC06(ctx *Ctx) (*Prepared, error) {
	p, err := prepareCodec(ctx, codecSpec{profile: "lite", harnesses: []string{"VH_C06"}})
	return withEvo(ctx, p, err, "VH_C06X", "c06x")
}

func PrepareC07(ctx *Ctx) (*Prepared, error) {
	// the decoders of string-bearing records are also run as generated with
	// SharedMemoryStrings (the only option that changes decoding code)
	shared := OptSet{Name: "shared", Unsafe: true, Shared: true}
	return prepareCodec(ctx, codecSpec{profile: "lite", perJob: 3, harnesses: []string{"VH_C07", "VH_C07W"},
		opts: []OptSet{BaseOpts, shared},
		optFilter: func(p *corpus.Pkg, o OptSet) bool {
			if !o.Shared {
				return true
			}
			if ctx.Tier != "thorough" && !(p.Ctor == "T" || p.Ctor == "T[]" || strings.Contains(p.Ctor, "string")) {
				return false // quick tier: plain fields, arrays and string-keyed maps
			}
			switch p.Leaf {
			case "string", "StrS", "Msg", "RO", "Uni":
				return !p.Deep
			}
			return strings.Contains(p.Ctor, "string")
		},
		harnessesFor: func(p *corpus.Pkg, tier string) []string {
			if tier == "thorough" || p.Ctor == "T" || p.Ctor == "T[]" || ((p.Leaf == "int32" || p.Leaf == "string") && !p.Deep && !p.LongStr) {
				return []string{"VH_C07", "VH_C07W"}
			}
			// quick tier: the corruption-window harness is limited to the shapes above
			return []string{"VH_C07"}
		}})
}

func PrepareC08(ctx *Ctx) (*Prepared, error) {
	p, err := prepareCodec(ctx, codecSpec{profile: "lite", harnesses: []string{"VH_C08W", "VH_C08R"}})
	if p != nil {
		p.AllRuns = true
	}
	return withEvo(ctx, p, err, "VH_C08X", "c08x")
}

// optionSets enumerates generator option combinations: quick = base, each
// single option, all five; thorough = all 32.
func optionSets(tier string) []OptSet {
	mk := func(bits int) OptSet {
		o := OptSet{Unsafe: bits&1 != 0, Shared: bits&2 != 0, Tags: bits&4 != 0, Private: bits&8 != 0, PtrRecv: bits&16 != 0}
		o.Name = fmt.Sprintf("o%02d", bits)
		return o
	}
	if tier == "thorough" {
		var out []OptSet
		for b := 0; b < 32; b++ {
			out = append(out, mk(b))
		}
		return out
	}
	return []OptSet{mk(0), mk(1), mk(2), mk(4), mk(8), mk(16), mk(31)}
}

// PrepareC09: the reference-codec check of C03 under every option set (all
// sets agree with the same reference, hence with each other).
func PrepareC09(ctx *Ctx) (*Prepared, error) {
	p, err := prepareCodec(ctx, codecSpec{profile: "lite", perJob: 6, harnesses: []string{"VH_C03"}, opts: optionSets(ctx.Tier),
		filter: func(p *corpus.Pkg) bool {
			if ctx.Tier == "thorough" {
				return !p.Deep || p.Leaf == "int32" || p.Leaf == "string"
			}
			if p.Ctor == "T[][]" && p.Context == "struct" && (p.Leaf == "Fixed" || p.Leaf == "StrS" || p.Leaf == "Msg" || p.Leaf == "string") {
				return true // nested arrays of records: loop-variable handling differs between option sets
			}
			return !p.Deep && (p.Context == "struct" || p.Context == "message" || p.Leaf == "int32" || p.Leaf == "Msg")
		}})
	if p != nil {
		p.AllRuns = true
		p.Bounds["option_sets"] = len(optionSets(ctx.Tier))
		p.Bounds["options"] = "GenerateUnsafeMethods, SharedMemoryStrings, GenerateFieldTags, PrivateDefinitions, AlwaysUsePointerReceivers"
	}
	return p, err
}
