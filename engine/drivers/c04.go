package drivers

import (
	"encoding/json"
	"fmt"
	"os"
	"os/exec"
	"path/filepath"
	"strings"

	"gosym/corpus"
	"gosym/interp"
)

// PrepareC04: schema evolution. Every pair (v1, v2) is generated into two
// sibling packages by the real generator; the harness lives in the v2 package
// and imports the v1 package.
func PrepareC04(ctx *Ctx) (*Prepared, error) {
	return prepareEvo(ctx, []string{"VH_C04", "VH_C04B", "VH_C04C"}, "c04")
}

// prepareEvo builds the evolution pairs and one job per pair and harness.
func prepareEvo(ctx *Ctx, harnesses []string, reach string) (*Prepared, error) {
	tier := tierOf(ctx)
	mod := filepath.Join(ctx.Work, "corp")
	if err := os.MkdirAll(mod, 0o755); err != nil {
		return nil, err
	}
	gomod := fmt.Sprintf("module corp\n\ngo 1.21\n\nrequire (\n\tgithub.com/200sc/bebop v0.0.0\n\tvh v0.0.0\n)\n\nreplace github.com/200sc/bebop => %s\n\nreplace vh => %s\n", ctx.Repo, filepath.Join(ctx.Verif, "harness"))
	if err := os.WriteFile(filepath.Join(mod, "go.mod"), []byte(gomod), 0o644); err != nil {
		return nil, err
	}
	bopgen := filepath.Join(ctx.Work, "bopgen")
	cmd := exec.Command("go", "build", "-o", bopgen, "./cmd/bopgen")
	cmd.Dir = filepath.Join(ctx.Verif, "harness")
	cmd.Env = goEnv()
	if out, err := cmd.CombinedOutput(); err != nil {
		return nil, fmt.Errorf("building bopgen against %s failed: %v\n%s", ctx.Repo, err, out)
	}
	pairs := corpus.EvoPairs()
	var items []*genItem
	for _, p := range pairs {
		for _, side := range []struct {
			name string
			s    *corpus.Schema
		}{{p.Name + "a", p.V1}, {p.Name, p.V2}} {
			dir := filepath.Join(mod, side.name)
			os.MkdirAll(dir, 0o755)
			bop := filepath.Join(dir, "schema.bop")
			os.WriteFile(bop, []byte(side.s.Bop()), 0o644)
			items = append(items, &genItem{Bop: bop, Out: filepath.Join(dir, "gen.go"), Package: side.name, Unsafe: true})
		}
	}
	jf, rf := filepath.Join(ctx.Work, "bopgen-in.json"), filepath.Join(ctx.Work, "bopgen-out.json")
	b, _ := json.Marshal(items)
	os.WriteFile(jf, b, 0o644)
	if out, err := exec.Command(bopgen, jf, rf).CombinedOutput(); err != nil {
		return nil, fmt.Errorf("bopgen: %v\n%s", err, out)
	}
	data, err := os.ReadFile(rf)
	if err != nil {
		return nil, err
	}
	var res []*genItem
	if err := json.Unmarshal(data, &res); err != nil {
		return nil, err
	}
	p := &Prepared{Targets: map[string]*ReplayTarget{}, ExpectReach: map[string][]string{}, NotAnalysable: map[string]string{}}
	kinds := map[string]map[string]string{}
	jo := JobOptions{LoopBudget: 4096, AllocLimit: 1 << 16, TimeoutMs: 20000, EnumCap: 64, CheckRewrites: true, Witnesses: 2, FuncBudgetS: 120}
	if ctx.Tier == "thorough" {
		jo.FuncBudgetS = 600
	}
	hints := loadHints(ctx)
	for i, pr := range pairs {
		if res[2*i].Err != "" || res[2*i+1].Err != "" {
			p.NotAnalysable[pr.Name+" ("+pr.Shape+")"] = "generator: " + res[2*i].Err + " " + res[2*i+1].Err
			continue
		}
		dir := filepath.Join(mod, pr.Name)
		os.WriteFile(filepath.Join(dir, "zz_glue.go"), []byte(corpus.EvoGlue(pr, tier)), 0o644)
		km := pr.V2.Kinds()
		kinds[pr.Name] = km
		kinds[pr.Name+"a"] = pr.V1.Kinds()
		if ctx.Tier != "thorough" && pr.Kind == "add-two" && (pr.Context == "array-element" || pr.Context == "map-value" || pr.Context == "struct-in-array") {
			// quick tier: the two-field evolution inside containers of up to two
			// elements (72^2 value structures x every short-read position) is left to
			// the thorough tier; the one-field evolutions cover these contexts
			continue
		}
		for _, h := range harnesses {
			j := &Job{Name: pr.Name + " " + pr.Shape + " " + h, Dir: mod, Patterns: []string{"./" + pr.Name}, Funcs: []string{"corp/" + pr.Name + "." + h}, Opt: jo,
				Meta: map[string]string{"evolution": pr.Kind, "context": pr.Context}}
			n := shardCount(hints.cost(ctx, j.Funcs[0]))
			for i := 0; i < n; i++ {
				sj := *j
				sj.Meta = map[string]string{"evolution": pr.Kind, "context": pr.Context}
				if n > 1 {
					sj.Name += fmt.Sprintf(" #%d/%d", i, n)
					sj.Opt.ShardN, sj.Opt.ShardI, sj.Opt.ShardDepth = n, i, shardDepth
				}
				p.Jobs = append(p.Jobs, &sj)
				p.ExpectReach[sj.Name] = []string{reach}
			}
		}
		p.Targets["corp/"+pr.Name] = &ReplayTarget{ModDir: mod, PkgPath: "corp/" + pr.Name, PkgDir: dir, PkgName: pr.Name, Vstub: "vh/vstub"}
	}
	p.CostKey = func(fn string) string { return fn } // pair names are stable
	norm := codecNormalize(kinds)
	p.Normalize = func(j *Job, pkg string, v *interp.Violation) Sig {
		s := norm(j, pkg, v)
		// a finding is identified by how the schema evolved and where the evolved message sits
		s.Class = j.Meta["evolution"] + "@" + j.Meta["context"]
		return s
	}
	p.Programs = 2 * len(pairs)
	p.Bounds = map[string]interface{}{
		"pairs":    "3 evolutions (one added int32 field; two added fields string+uint8 with a gap in the indices; a field the reader has deprecated but the peer still sends) x 8 nesting contexts of the evolved message (top level, struct field, array element, map value, message field, union branch, field of a struct that is itself a struct field, field of a struct that is an array element), each followed by a sentinel field",
		"values":   fmt.Sprintf("v2 values: all scalar leaves symbolic, arrays/maps of 0..%d elements, strings of 0..%d bytes, every nil/non-nil combination of message fields", tier.MaxArr, tier.MaxStr),
		"decoders": "UnmarshalBebop and DecodeBebop of the v1 code on MarshalBebop bytes of the v2 value",
		"quick":    "the two-field evolution inside array elements, map values and arrays of structs is run in the thorough tier only (21 of the 24 pairs in the quick tier)",
		"outside":  "several evolved messages in one record, evolutions of nested depth > 1, removed fields",
	}
	p.Assumptions = []string{"v2 values satisfy the validity predicate of the codec checks", "64-bit little-endian target"}
	p.Stubs = []string{"vstub.FragReader", "time.Time abstract model"}
	p.Explanation = "bounded symbolic execution of code generated from both schema versions (regenerated on this run): v1 decoders on v2 encodings, equality restricted to the fields v1 knows"
	os.Remove(bopgen)
	return p, nil
}

// withEvo adds to a codec check the evolution pairs of C04 under the given
// harness: the property is then also checked on the encodings a newer writer
// produces (unknown trailing fields on the wire), read by the older code.
func withEvo(ctx *Ctx, p *Prepared, err error, harness, reach string) (*Prepared, error) {
	if err != nil || p == nil {
		return p, err
	}
	e, err := prepareEvo(ctx, []string{harness}, reach)
	if err != nil {
		return nil, err
	}
	isEvo := map[string]bool{}
	for _, j := range e.Jobs {
		if ctx.Tier != "thorough" {
			// quick tier: the larger evolution (two added fields) and the container
			// contexts whose value space is the largest are left to the thorough tier
			c := j.Meta["context"]
			if j.Meta["evolution"] == "add-two" || c == "map-value" || c == "struct-in-array" || c == "union-branch" {
				delete(e.ExpectReach, j.Name)
				continue
			}
		}
		isEvo[j.Name] = true
		j.First = true
		p.Jobs = append(p.Jobs, j)
	}
	for k, v := range e.Targets {
		p.Targets[k] = v
	}
	for k, v := range e.ExpectReach {
		p.ExpectReach[k] = v
	}
	for k, v := range e.NotAnalysable {
		p.NotAnalysable[k] = v
	}
	pn, en, pc, ec := p.Normalize, e.Normalize, p.CostKey, e.CostKey
	p.Normalize = func(j *Job, pkg string, v *interp.Violation) Sig {
		if isEvo[j.Name] {
			return en(j, pkg, v)
		}
		return pn(j, pkg, v)
	}
	p.CostKey = func(fn string) string {
		if strings.HasPrefix(fn, "corp/e") {
			return ec(fn)
		}
		return pc(fn)
	}
	p.Programs += e.Programs
	p.Bounds["newer_writer"] = "evolution pairs of C04: the newer version's encodings, read by the older version's decoders (thorough: all 24 pairs = 3 evolutions x 8 nesting contexts; quick: 10 pairs = {added int32 field, deprecated field still sent} x {top level, struct field, array element, message field, struct in struct})"
	return p, nil
}
