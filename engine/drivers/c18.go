package drivers

import (
	"path/filepath"
)

// PrepareC18: cycle search of internal/importgraph. The harness is mapped
// into the package by overlay; /repo is not written.
func PrepareC18(ctx *Ctx) (*Prepared, error) {
	src := filepath.Join(ctx.Verif, "harness", "inpkg", "importgraph")
	pkgDir := filepath.Join(ctx.Repo, "internal", "importgraph")
	const pkgPath = "github.com/200sc/bebop/internal/importgraph"
	funcs := []string{"VH_C18_E2N2", "VH_C18_E3N3", "VH_C18_E4N3", "VH_C18_E4N4"}
	if ctx.Tier == "thorough" {
		funcs = append(funcs, "VH_C18_E5N4")
	}
	p := &Prepared{Targets: map[string]*ReplayTarget{}, ExpectReach: map[string][]string{}}
	for _, f := range funcs {
		j := &Job{Name: "c18-" + f, Dir: ctx.Repo, Patterns: []string{"./internal/importgraph"},
			Overlay: map[string]string{
				filepath.Join(pkgDir, "zz_harness.go"):      filepath.Join(src, "zz_harness.go.txt"),
				filepath.Join(pkgDir, "zz_stubs_engine.go"): filepath.Join(src, "zz_stubs_engine.go.txt"),
			},
			Funcs: []string{pkgPath + "." + f},
			Opt:   JobOptions{LoopBudget: 4096, TimeoutMs: 20000, EnumCap: 64, CheckRewrites: true, Witnesses: 3, FuncBudgetS: 900},
		}
		p.Jobs = append(p.Jobs, j)
		p.ExpectReach[j.Name] = []string{"c18"}
	}
	p.Targets[pkgPath] = &ReplayTarget{ModDir: ctx.Repo, PkgPath: pkgPath, PkgDir: pkgDir, PkgName: "importgraph", Vstub: "", Overlay: true,
		Extra: map[string]string{
			filepath.Join(pkgDir, "zz_harness.go"):      filepath.Join(src, "zz_harness.go.txt"),
			filepath.Join(pkgDir, "zz_stubs_native.go"): filepath.Join(src, "zz_stubs_native.go.txt"),
		}}
	p.Programs = 1
	p.Bounds = map[string]interface{}{
		"graphs":    "every multigraph given by k edges with symbolic endpoints over n node names: (k,n) in {(2,2),(3,3),(4,3),(4,4)}, thorough adds (5,4); self-loops and parallel edges included",
		"map_order": "every iteration order of the node map in FindCycle (all permutations)",
		"outside":   "more edges/nodes; path resolution, the work-list in File.Generate and combined-mode equivalence (file system and text generator: not encodable, see DESIGN.md §6)",
	}
	p.Assumptions = []string{"node names are one byte (the search only compares names for equality)", "fmt.Errorf approximated (error text not inspected)"}
	p.Stubs = []string{"fmt.* approximated"}
	p.Explanation = "bounded symbolic execution of dgraph.AddEdge/FindCycle over symbolic edge endpoints; the reference is a transitive-closure formula over the endpoint bytes; the equivalence is discharged by z3 on every path"
	return p, nil
}
