package drivers

import (
	"encoding/json"
	"os"
	"path/filepath"
	"sort"
)

// Cost hints: wall seconds per harness function measured on an earlier run,
// kept in cost_hints.json. They only order and group the jobs (longest first,
// heavy functions alone in a job) so that a run's tail is short; they have no
// influence on what is explored. VERIF_WRITE_HINTS=1 refreshes them.

type hintSet map[string]float64

func hintsPath(ctx *Ctx) string { return filepath.Join(ctx.Verif, "cost_hints.json") }

func loadHints(ctx *Ctx) hintSet {
	h := hintSet{}
	if data, err := os.ReadFile(hintsPath(ctx)); err == nil {
		json.Unmarshal(data, &h)
	}
	return h
}

func hintKey(ctx *Ctx, costKey string) string { return ctx.ID + "|" + ctx.Tier + "|" + costKey }

// cost of one function (default: a small constant).
func (h hintSet) cost(ctx *Ctx, costKey string) float64 {
	if v, ok := h[hintKey(ctx, costKey)]; ok {
		return v
	}
	return 2
}

func jobCost(ctx *Ctx, h hintSet, p *Prepared, j *Job) float64 {
	c := 1.5 // load
	for _, fn := range j.Funcs {
		c += h.cost(ctx, p.costKey(fn))
	}
	if j.Opt.ShardN > 1 {
		c = 1.5 + (c-1.5)/float64(j.Opt.ShardN)
	}
	return c
}

func (p *Prepared) costKey(fn string) string {
	if p.CostKey != nil {
		return p.CostKey(fn)
	}
	return fn
}

func sortJobsByCost(ctx *Ctx, p *Prepared, jobs []*Job) {
	h := loadHints(ctx)
	sort.SliceStable(jobs, func(a, b int) bool {
		if jobs[a].First != jobs[b].First {
			return jobs[a].First
		}
		return jobCost(ctx, h, p, jobs[a]) > jobCost(ctx, h, p, jobs[b])
	})
}

func writeHints(ctx *Ctx, p *Prepared, results []*JobResult) {
	h := loadHints(ctx)
	fresh := map[string]bool{}
	for _, r := range results {
		if r == nil {
			continue
		}
		for _, fr := range r.Funcs {
			if fr.Error == "" {
				k := hintKey(ctx, p.costKey(fr.Func))
				if !fresh[k] {
					fresh[k] = true
					h[k] = 0
				}
				// (the shards of a function add up; a budget cut keeps the hint high)
				h[k] += float64(int(fr.WallS*10)) / 10
			}
		}
	}
	data, _ := json.MarshalIndent(h, "", " ")
	os.WriteFile(hintsPath(ctx), append(data, '\n'), 0o644)
}

// shardDepth is the number of leading decisions whose choices select the shard.
const shardDepth = 8

// shardCount: how many path-space shards a function with this cost hint gets.
func shardCount(cost float64) int {
	if cost <= 30 {
		return 1
	}
	n := int(cost/20) + 1
	if n > 16 {
		n = 16
	}
	return n
}
