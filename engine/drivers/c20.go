package drivers

import (
	"fmt"
	"os"
	"path/filepath"
	"regexp"
	"strings"
)

var harnessListRe = regexp.MustCompile(`(?m)^func ((?:Bytes|Stream|Stale|String)[A-Za-z0-9]*)\(\) \{`)

func harnessFuncs(dir string) ([]string, error) {
	var out []string
	files, _ := filepath.Glob(filepath.Join(dir, "*.go"))
	for _, f := range files {
		if strings.HasSuffix(f, "_test.go") {
			continue
		}
		b, err := os.ReadFile(f)
		if err != nil {
			return nil, err
		}
		for _, m := range harnessListRe.FindAllStringSubmatch(string(b), -1) {
			out = append(out, m[1])
		}
	}
	return out, nil
}

// PrepareC20: iohelp primitives. One job per group of harness functions; the
// code under test is /repo/iohelp loaded from source on every run.
func PrepareC20(ctx *Ctx) (*Prepared, error) {
	hdir := filepath.Join(ctx.Verif, "harness")
	names, err := harnessFuncs(filepath.Join(hdir, "c20"))
	if err != nil {
		return nil, err
	}
	if len(names) == 0 {
		return nil, fmt.Errorf("no C20 harnesses found")
	}
	p := &Prepared{Targets: map[string]*ReplayTarget{}, ExpectReach: map[string][]string{}}
	nshard := 8
	if len(names) < nshard {
		nshard = len(names)
	}
	shards := make([][]string, nshard)
	for i, n := range names {
		shards[i%nshard] = append(shards[i%nshard], n)
	}
	for i, sh := range shards {
		j := &Job{Name: fmt.Sprintf("c20-%d", i), Dir: hdir, Patterns: []string{"./c20"}}
		for _, n := range sh {
			j.Funcs = append(j.Funcs, "vh/c20."+n)
			switch n {
			case "StringBytes":
				p.ExpectReach[j.Name] = append(p.ExpectReach[j.Name], "StringBytes.shortheader", "StringBytes.shortbody", "StringBytes.ok")
			default:
				p.ExpectReach[j.Name] = append(p.ExpectReach[j.Name], n)
			}
		}
		j.Opt = JobOptions{LoopBudget: 512, AllocLimit: 1 << 16, TimeoutMs: 20000, EnumCap: 64, CheckRewrites: true, Witnesses: 2}
		if ctx.Tier == "thorough" {
			// every identity is decided by the solver on the unsimplified encoding
			j.Opt.NoRewrite = true
			j.Opt.CheckRewrites = false
			j.Opt.TimeoutMs = 120000
		}
		p.Jobs = append(p.Jobs, j)
		p.Targets["vh/c20"] = &ReplayTarget{ModDir: hdir, PkgPath: "vh/c20", PkgDir: filepath.Join(hdir, "c20"), PkgName: "c20", Vstub: "vh/vstub", Overlay: true}
	}
	p.Programs = 1
	p.Bounds = map[string]interface{}{
		"operands":         "every bit of every operand symbolic (all 2^8..2^64 values; float NaN payloads included as raw bit patterns; GUID 16 symbolic bytes)",
		"buffers":          "exact width and width+2 (guard bytes symbolic), every shorter length 0..width-1 for the panic-not-overrun clause",
		"string_buffers":   "ReadStringBytes on fully symbolic buffers of every length 0..12",
		"fragmentation":    "every read-fragmentation schedule for widths <= 8; GUID: every schedule of the first 2 reads; date: first 3 reads",
		"failure_points":   "underlying reader fails after k = 0..width-1 bytes, error in {io.EOF, io.ErrUnexpectedEOF, opaque}, with and without data returned alongside the error",
		"scratch_prestate": "8 symbolic bytes left by a preceding successful ReadUint64 (two runs differing only in those bytes)",
		"date_range":       "|tick| <= floor((2^63-1)/100); ticks whose product with 100 overflows int64 are outside the claim",
		"tier_mode":        map[string]string{"quick": "rewriting on, every rewrite instance validated by a solver query", "thorough": "rewriting off: all obligations discharged by the solver on the unsimplified encoding"}[ctx.Tier],
	}
	p.Assumptions = []string{
		"64-bit little-endian target (amd64): int = 64 bits; unsafe casts of &buf[i] modelled as little-endian access to consecutive byte cells of the backing array",
		"time.Time abstracted as (isZero, unixNano): exact for the zero time and time.Unix(0, n)",
		"floats carried as IEEE bit patterns; math.Float32bits/frombits etc. are the identity",
		"io.ReadFull / io.ReadAtLeast, errors.New, append growth interpreted from the Go standard library's SSA",
		"single-threaded execution; no recover()",
	}
	p.Stubs = []string{"vstub.FragReader (nondeterministic chunking, fault injection)", "vstub.Sink", "time.Time abstract model", "math.Float*bits identity", "fmt.* approximated (error texts only)"}
	p.Explanation = "bounded symbolic execution of /repo/iohelp's SSA; per harness all paths explored, each assertion discharged by z3 (or by solver-validated rewriting)"
	return p, nil
}
