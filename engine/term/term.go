// Package term implements hash-consed bit-vector / boolean terms with a
// constructor-time simplifier. Widths are limited to 64 bits.
package term

import (
	"fmt"
	"math/bits"
	"strings"
)

type Op uint8

const (
	OpConst Op = iota
	OpVar
	OpNot
	OpAnd
	OpOr
	OpIte
	OpEq
	OpBvNot
	OpBvNeg
	OpBvAdd
	OpBvSub
	OpBvMul
	OpBvUdiv
	OpBvSdiv
	OpBvUrem
	OpBvSrem
	OpBvAnd
	OpBvOr
	OpBvXor
	OpBvShl
	OpBvLshr
	OpBvAshr
	OpUlt
	OpSlt
	OpUle
	OpSle
	OpExtract
	OpConcat
	OpZext
	OpSext
)

var opNames = [...]string{
	OpConst: "const", OpVar: "var", OpNot: "not", OpAnd: "and", OpOr: "or", OpIte: "ite", OpEq: "=",
	OpBvNot: "bvnot", OpBvNeg: "bvneg", OpBvAdd: "bvadd", OpBvSub: "bvsub", OpBvMul: "bvmul",
	OpBvUdiv: "bvudiv", OpBvSdiv: "bvsdiv", OpBvUrem: "bvurem", OpBvSrem: "bvsrem",
	OpBvAnd: "bvand", OpBvOr: "bvor", OpBvXor: "bvxor", OpBvShl: "bvshl", OpBvLshr: "bvlshr", OpBvAshr: "bvashr",
	OpUlt: "bvult", OpSlt: "bvslt", OpUle: "bvule", OpSle: "bvsle",
	OpExtract: "extract", OpConcat: "concat", OpZext: "zero_extend", OpSext: "sign_extend",
}

// Term is an immutable hash-consed node. W == 0 means Bool.
type Term struct {
	Op     Op
	W      int
	A, B   *Term
	C      *Term
	Val    uint64
	Hi, Lo int
	Name   string
	ID     int
	HasMul bool // contains mul/div/rem by non-trivial operands (routing hint)
	MulC   int  // longest chain of multiplications by constants
}

type key struct {
	op      Op
	w       int
	a, b, c int
	val     uint64
	hi, lo  int
	name    string
}

var (
	table    = map[key]*Term{}
	nextID   = 1
	True     *Term
	False    *Term
	Simplify = true
	// Rewrite enables the structural rewrite rules; when false only constant
	// folding and boolean unit laws are applied, so every non-trivial identity
	// is left to the solver.
	Rewrite = true
	// RewriteHook, if set, is called for every non-trivial rewrite: raw is the
	// unsimplified node (built over already simplified children), res the result.
	RewriteHook func(raw, res *Term)
	Created     int
)

func init() {
	True = intern(&Term{Op: OpConst, W: 0, Val: 1})
	False = intern(&Term{Op: OpConst, W: 0, Val: 0})
}

func id(t *Term) int {
	if t == nil {
		return 0
	}
	return t.ID
}

func intern(t *Term) *Term {
	k := key{t.Op, t.W, id(t.A), id(t.B), id(t.C), t.Val, t.Hi, t.Lo, t.Name}
	if e, ok := table[k]; ok {
		return e
	}
	t.ID = nextID
	nextID++
	Created++
	// HasMul: contains a division/remainder, a product of two non-constants,
	// or a chain of five or more multiplications by constants (the kernels the
	// bit-blasting back ends do not finish; routed to integer blasting)
	for _, c := range []*Term{t.A, t.B, t.C} {
		if c != nil {
			if c.HasMul {
				t.HasMul = true
			}
			if c.MulC > t.MulC {
				t.MulC = c.MulC
			}
		}
	}
	switch t.Op {
	case OpBvUdiv, OpBvSdiv, OpBvUrem, OpBvSrem:
		t.HasMul = true
	case OpBvMul:
		if t.A.IsConst() || t.B.IsConst() {
			t.MulC++
		} else {
			t.HasMul = true
		}
	}
	if t.MulC >= 5 {
		t.HasMul = true
	}
	table[k] = t
	return t
}

func mask(w int) uint64 {
	if w >= 64 {
		return ^uint64(0)
	}
	return (uint64(1) << uint(w)) - 1
}

// Const returns a bit-vector constant of width w.
func Const(w int, v uint64) *Term {
	if w == 0 {
		panic("Const: width 0")
	}
	return intern(&Term{Op: OpConst, W: w, Val: v & mask(w)})
}

func Bool(b bool) *Term {
	if b {
		return True
	}
	return False
}

// Var returns the variable with the given name and width (0 = Bool).
func Var(name string, w int) *Term {
	return intern(&Term{Op: OpVar, W: w, Name: name})
}

func (t *Term) IsConst() bool { return t.Op == OpConst }
func (t *Term) IsTrue() bool  { return t == True }
func (t *Term) IsFalse() bool { return t == False }

// SignedVal returns the constant value sign-extended to int64.
func (t *Term) SignedVal() int64 {
	return sext64(t.Val, t.W)
}

func sext64(v uint64, w int) int64 {
	if w >= 64 {
		return int64(v)
	}
	sh := uint(64 - w)
	return int64(v<<sh) >> sh
}

func raw(t *Term) *Term { return intern(t) }

func hook(r, res *Term) *Term {
	if RewriteHook != nil && r != res {
		RewriteHook(r, res)
	}
	return res
}

// rw reports a rewrite: builds the raw node lazily only if a hook is set.
func rw(mk func() *Term, res *Term) *Term {
	if RewriteHook != nil {
		r := mk()
		if r != res {
			RewriteHook(r, res)
		}
	}
	return res
}

func Not(a *Term) *Term {
	if a.W != 0 {
		panic("Not: non-bool")
	}
	if Simplify {
		if a.IsConst() {
			return Bool(a.Val == 0)
		}
		if a.Op == OpNot && Rewrite {
			return rw(func() *Term { return raw(&Term{Op: OpNot, A: a}) }, a.A)
		}
	}
	return intern(&Term{Op: OpNot, A: a})
}

func And(a, b *Term) *Term {
	if a.W != 0 || b.W != 0 {
		panic("And: non-bool")
	}
	if Simplify {
		if a.IsFalse() || b.IsFalse() {
			return False
		}
		if a.IsTrue() {
			return b
		}
		if b.IsTrue() {
			return a
		}
		if a == b {
			return a
		}
		if a.Op == OpNot && a.A == b || b.Op == OpNot && b.A == a {
			return False
		}
	}
	if a.ID > b.ID {
		a, b = b, a
	}
	return intern(&Term{Op: OpAnd, A: a, B: b})
}

func Or(a, b *Term) *Term {
	if a.W != 0 || b.W != 0 {
		panic("Or: non-bool")
	}
	if Simplify {
		if a.IsTrue() || b.IsTrue() {
			return True
		}
		if a.IsFalse() {
			return b
		}
		if b.IsFalse() {
			return a
		}
		if a == b {
			return a
		}
		if a.Op == OpNot && a.A == b || b.Op == OpNot && b.A == a {
			return True
		}
	}
	if a.ID > b.ID {
		a, b = b, a
	}
	return intern(&Term{Op: OpOr, A: a, B: b})
}

func AndAll(ts ...*Term) *Term {
	r := True
	for _, t := range ts {
		r = And(r, t)
	}
	return r
}

func Ite(c, a, b *Term) *Term {
	if c.W != 0 || a.W != b.W {
		panic(fmt.Sprintf("Ite: sorts %d %d %d", c.W, a.W, b.W))
	}
	if Simplify {
		if c.IsTrue() {
			return a
		}
		if c.IsFalse() {
			return b
		}
		if a == b {
			return a
		}
		if a.W == 0 && Rewrite {
			if a.IsTrue() && b.IsFalse() {
				return c
			}
			if a.IsFalse() && b.IsTrue() {
				return Not(c)
			}
			if a.IsTrue() {
				return Or(c, b)
			}
			if a.IsFalse() {
				return And(Not(c), b)
			}
			if b.IsTrue() {
				return Or(Not(c), a)
			}
			if b.IsFalse() {
				return And(c, a)
			}
		}
	}
	return intern(&Term{Op: OpIte, W: a.W, A: c, B: a, C: b})
}

func Eq(a, b *Term) *Term {
	if a.W != b.W {
		panic(fmt.Sprintf("Eq: widths %d %d (%v, %v)", a.W, b.W, a, b))
	}
	if Simplify {
		if a == b {
			return True
		}
		if a.IsConst() && b.IsConst() {
			return Bool(a.Val == b.Val)
		}
		if a.W == 0 {
			if a.IsTrue() {
				return b
			}
			if b.IsTrue() {
				return a
			}
			if a.IsFalse() {
				return Not(b)
			}
			if b.IsFalse() {
				return Not(a)
			}
		}
		// (ite c k1 k2) == k  with constants
		if a.IsConst() {
			a, b = b, a
		}
		if !Rewrite {
			if a.ID > b.ID {
				a, b = b, a
			}
			return intern(&Term{Op: OpEq, A: a, B: b})
		}
		if b.IsConst() && a.Op == OpIte && !(a.B.IsConst() && a.C.IsConst()) && constLeaves(a, 0) {
			return rw(func() *Term { return raw(&Term{Op: OpEq, A: a, B: b}) }, Ite(a.A, Eq(a.B, b), Eq(a.C, b)))
		}
		if b.IsConst() && a.Op == OpIte && a.B.IsConst() && a.C.IsConst() {
			x, y := a.B.Val == b.Val, a.C.Val == b.Val
			switch {
			case x && y:
				return True
			case x && !y:
				return a.A
			case !x && y:
				return Not(a.A)
			default:
				return False
			}
		}
		// zext(x) == const
		if b.IsConst() && a.Op == OpZext {
			if b.Val&^mask(a.A.W) != 0 {
				return rw(func() *Term { return raw(&Term{Op: OpEq, A: a, B: b}) }, False)
			}
			return rw(func() *Term { return raw(&Term{Op: OpEq, A: a, B: b}) }, Eq(a.A, Const(a.A.W, b.Val)))
		}
		if a.Op == OpZext && b.Op == OpZext && a.A.W == b.A.W {
			return rw(func() *Term { return raw(&Term{Op: OpEq, A: a, B: b}) }, Eq(a.A, b.A))
		}
	}
	if a.ID > b.ID {
		a, b = b, a
	}
	return intern(&Term{Op: OpEq, A: a, B: b})
}

func Ne(a, b *Term) *Term { return Not(Eq(a, b)) }

func un(op Op, a *Term) *Term {
	if Simplify && a.IsConst() {
		switch op {
		case OpBvNot:
			return Const(a.W, ^a.Val)
		case OpBvNeg:
			return Const(a.W, -a.Val)
		}
	}
	if Simplify && Rewrite && a.Op == op {
		return rw(func() *Term { return raw(&Term{Op: op, W: a.W, A: a}) }, a.A)
	}
	return intern(&Term{Op: op, W: a.W, A: a})
}

func BvNot(a *Term) *Term { return un(OpBvNot, a) }
func BvNeg(a *Term) *Term { return un(OpBvNeg, a) }

func foldBin(op Op, w int, x, y uint64) (uint64, bool) {
	m := mask(w)
	switch op {
	case OpBvAdd:
		return (x + y) & m, true
	case OpBvSub:
		return (x - y) & m, true
	case OpBvMul:
		return (x * y) & m, true
	case OpBvUdiv:
		if y == 0 {
			return m, true
		}
		return x / y, true
	case OpBvUrem:
		if y == 0 {
			return x, true
		}
		return x % y, true
	case OpBvSdiv:
		sx, sy := sext64(x, w), sext64(y, w)
		if sy == 0 {
			if sx >= 0 {
				return m, true
			}
			return 1, true
		}
		if sy == -1 {
			return uint64(-sx) & m, true
		}
		return uint64(sx/sy) & m, true
	case OpBvSrem:
		sx, sy := sext64(x, w), sext64(y, w)
		if sy == 0 {
			return x, true
		}
		if sy == -1 {
			return 0, true
		}
		return uint64(sx%sy) & m, true
	case OpBvAnd:
		return x & y, true
	case OpBvOr:
		return x | y, true
	case OpBvXor:
		return x ^ y, true
	case OpBvShl:
		if y >= uint64(w) {
			return 0, true
		}
		return (x << y) & m, true
	case OpBvLshr:
		if y >= uint64(w) {
			return 0, true
		}
		return x >> y, true
	case OpBvAshr:
		sx := sext64(x, w)
		if y >= uint64(w) {
			y = uint64(w - 1)
		}
		return uint64(sx>>y) & m, true
	}
	return 0, false
}

func commutative(op Op) bool {
	switch op {
	case OpBvAdd, OpBvMul, OpBvAnd, OpBvOr, OpBvXor:
		return true
	}
	return false
}

func Bin(op Op, a, b *Term) *Term {
	if a.W != b.W || a.W == 0 {
		panic(fmt.Sprintf("Bin %s: widths %d %d", opNames[op], a.W, b.W))
	}
	w := a.W
	if Simplify {
		if a.IsConst() && b.IsConst() {
			if v, ok := foldBin(op, w, a.Val, b.Val); ok {
				return Const(w, v)
			}
		}
		if !Rewrite {
			return intern(&Term{Op: op, W: w, A: a, B: b})
		}
		if commutative(op) && a.IsConst() {
			a, b = b, a
		}
		mkraw := func() *Term { return raw(&Term{Op: op, W: w, A: a, B: b}) }
		if b.IsConst() {
			switch op {
			case OpBvAdd, OpBvSub, OpBvOr, OpBvXor, OpBvShl, OpBvLshr, OpBvAshr:
				if b.Val == 0 {
					return rw(mkraw, a)
				}
			case OpBvMul:
				if b.Val == 0 {
					return rw(mkraw, Const(w, 0))
				}
				if b.Val == 1 {
					return rw(mkraw, a)
				}
			case OpBvUdiv, OpBvSdiv:
				if b.Val == 1 {
					return rw(mkraw, a)
				}
				// unsigned division by a power of two is a shift
				if op == OpBvUdiv && b.Val != 0 && b.Val&(b.Val-1) == 0 {
					k := bits.TrailingZeros64(b.Val)
					return rw(mkraw, Zext(Extract(w-1, k, a), w))
				}
			case OpBvUrem:
				// unsigned remainder by a power of two keeps the low bits
				if b.Val != 0 && b.Val&(b.Val-1) == 0 {
					k := bits.TrailingZeros64(b.Val)
					if k == 0 {
						return rw(mkraw, Const(w, 0))
					}
					return rw(mkraw, Zext(Extract(k-1, 0, a), w))
				}
			case OpBvAnd:
				if b.Val == 0 {
					return rw(mkraw, Const(w, 0))
				}
				if b.Val == mask(w) {
					return rw(mkraw, a)
				}
				// x & (2^k-1)  ->  zext(extract(k-1,0,x))
				if b.Val&(b.Val+1) == 0 {
					k := bits.Len64(b.Val)
					return rw(mkraw, Zext(Extract(k-1, 0, a), w))
				}
			}
			if op == OpBvOr && b.Val == mask(w) {
				return rw(mkraw, b)
			}
			// shifts by constants expressed structurally
			if op == OpBvLshr && b.Val < uint64(w) {
				k := int(b.Val)
				return rw(mkraw, Zext(Extract(w-1, k, a), w))
			}
			if op == OpBvShl && b.Val < uint64(w) {
				k := int(b.Val)
				return rw(mkraw, Concat(Extract(w-1-k, 0, a), Const(k, 0)))
			}
			if (op == OpBvShl || op == OpBvLshr) && b.Val >= uint64(w) {
				return rw(mkraw, Const(w, 0))
			}
			// (x + c1) + c2
			if op == OpBvAdd && a.Op == OpBvAdd && a.B.IsConst() {
				return rw(mkraw, Bin(OpBvAdd, a.A, Const(w, a.B.Val+b.Val)))
			}
			if op == OpBvSub {
				return rw(mkraw, Bin(OpBvAdd, a, Const(w, -b.Val)))
			}
		}
		// lift an operation with a constant through an ite whose leaves are constants
		if b.IsConst() && a.Op == OpIte && constLeaves(a, 0) {
			return rw(mkraw, Ite(a.A, Bin(op, a.B, b), Bin(op, a.C, b)))
		}
		// narrow additions and multiplications whose operands are provably small
		// (zero-extended bytes, small constants): compute in k bits, then extend
		if (op == OpBvAdd || op == OpBvMul) && w > 8 {
			ka, kb := ubits(a), ubits(b)
			k := ka + kb
			if op == OpBvAdd {
				k = ka + 1
				if kb > ka {
					k = kb + 1
				}
			}
			if k < w && (a.Op == OpZext || b.Op == OpZext) {
				na, nb := Extract(k-1, 0, a), Extract(k-1, 0, b)
				return rw(mkraw, Zext(Bin(op, na, nb), w))
			}
		}
		if a == b {
			switch op {
			case OpBvSub, OpBvXor:
				return rw(mkraw, Const(w, 0))
			case OpBvAnd, OpBvOr:
				return rw(mkraw, a)
			}
		}
		// a | b where the operands occupy disjoint bit ranges: zext(x) | (y ++ 0_k) with width(x) <= k
		if op == OpBvOr || op == OpBvAdd || op == OpBvXor {
			if r := disjointOr(a, b); r != nil {
				return rw(mkraw, r)
			}
			if r := disjointOr(b, a); r != nil {
				return rw(mkraw, r)
			}
		}
	}
	if commutative(op) && a.ID > b.ID {
		a, b = b, a
	}
	return intern(&Term{Op: op, W: w, A: a, B: b})
}

// lowZeros returns k if t is known to have its k low bits zero with the
// remaining high part hi (t == hi ++ 0_k).
func splitLowZeros(t *Term) (hi *Term, k int) {
	if t.Op == OpConcat && t.B.IsConst() && t.B.Val == 0 {
		return t.A, t.B.W
	}
	if t.Op == OpZext && t.A.Op == OpConcat && t.A.B.IsConst() && t.A.B.Val == 0 {
		k := t.A.B.W
		return Zext(t.A.A, t.W-k), k
	}
	return nil, 0
}

// highZeros returns the low part if t == zext(lo).
func splitHighZeros(t *Term) *Term {
	if t.Op == OpZext {
		return t.A
	}
	return nil
}

func disjointOr(a, b *Term) *Term {
	lo := splitHighZeros(a)
	hi, k := splitLowZeros(b)
	if lo == nil || hi == nil || lo.W > k {
		return nil
	}
	if lo.W < k {
		lo = Zext(lo, k)
	}
	return Concat(hi, lo)
}

func cmpFold(op Op, w int, x, y uint64) bool {
	switch op {
	case OpUlt:
		return x < y
	case OpUle:
		return x <= y
	case OpSlt:
		return sext64(x, w) < sext64(y, w)
	case OpSle:
		return sext64(x, w) <= sext64(y, w)
	}
	panic("cmpFold")
}

func Cmp(op Op, a, b *Term) *Term {
	if a.W != b.W || a.W == 0 {
		panic(fmt.Sprintf("Cmp: widths %d %d", a.W, b.W))
	}
	if Simplify {
		if a.IsConst() && b.IsConst() {
			return Bool(cmpFold(op, a.W, a.Val, b.Val))
		}
		if a == b {
			return Bool(op == OpUle || op == OpSle)
		}
		if !Rewrite {
			return intern(&Term{Op: op, A: a, B: b})
		}
		mkraw := func() *Term { return raw(&Term{Op: op, A: a, B: b}) }
		// unsigned comparisons of zero-extended values against constants
		if a.Op == OpZext && b.IsConst() {
			iw := a.A.W
			if b.Val&^mask(iw) == 0 && (op == OpUlt || op == OpUle || sext64(b.Val, b.W) >= 0) {
				nop := op
				if op == OpSlt {
					nop = OpUlt
				} else if op == OpSle {
					nop = OpUle
				}
				return rw(mkraw, Cmp(nop, a.A, Const(iw, b.Val)))
			}
			if b.Val&^mask(iw) != 0 && (op == OpUlt || op == OpUle) {
				return rw(mkraw, True)
			}
			if iw < a.W && (op == OpSlt || op == OpSle) {
				// zext value is non-negative and < 2^iw
				sb := sext64(b.Val, b.W)
				if sb < 0 {
					return rw(mkraw, False)
				}
				return rw(mkraw, True) // b >= 2^iw here
			}
		}
		if b.Op == OpZext && a.IsConst() {
			iw := b.A.W
			if a.Val&^mask(iw) == 0 && (op == OpUlt || op == OpUle || sext64(a.Val, a.W) >= 0) {
				nop := op
				if op == OpSlt {
					nop = OpUlt
				} else if op == OpSle {
					nop = OpUle
				}
				return rw(mkraw, Cmp(nop, Const(iw, a.Val), b.A))
			}
			if a.Val&^mask(iw) != 0 && (op == OpUlt || op == OpUle) {
				return rw(mkraw, False)
			}
			if iw < b.W && (op == OpSlt || op == OpSle) {
				sa := sext64(a.Val, a.W)
				if sa < 0 {
					return rw(mkraw, True)
				}
				return rw(mkraw, False)
			}
		}
		if a.Op == OpZext && b.Op == OpZext && a.A.W == b.A.W && a.A.W < a.W {
			nop := op
			if op == OpSlt {
				nop = OpUlt
			} else if op == OpSle {
				nop = OpUle
			}
			return rw(mkraw, Cmp(nop, a.A, b.A))
		}
		if op == OpUlt && b.IsConst() && b.Val == 0 {
			return False
		}
		if op == OpUle && a.IsConst() && a.Val == 0 {
			return True
		}
	}
	return intern(&Term{Op: op, A: a, B: b})
}

func Extract(hi, lo int, a *Term) *Term {
	if a.W == 0 || hi < lo || hi >= a.W || lo < 0 {
		panic(fmt.Sprintf("Extract(%d,%d) of width %d", hi, lo, a.W))
	}
	w := hi - lo + 1
	if Simplify {
		if w == a.W {
			return a
		}
		if a.IsConst() {
			return Const(w, a.Val>>uint(lo))
		}
		if !Rewrite {
			return intern(&Term{Op: OpExtract, W: w, A: a, Hi: hi, Lo: lo})
		}
		mkraw := func() *Term { return raw(&Term{Op: OpExtract, W: w, A: a, Hi: hi, Lo: lo}) }
		switch a.Op {
		case OpExtract:
			return rw(mkraw, Extract(hi+a.Lo, lo+a.Lo, a.A))
		case OpConcat:
			bw := a.B.W
			if hi < bw {
				return rw(mkraw, Extract(hi, lo, a.B))
			}
			if lo >= bw {
				return rw(mkraw, Extract(hi-bw, lo-bw, a.A))
			}
			return rw(mkraw, Concat(Extract(hi-bw, 0, a.A), Extract(bw-1, lo, a.B)))
		case OpZext:
			iw := a.A.W
			if hi < iw {
				return rw(mkraw, Extract(hi, lo, a.A))
			}
			if lo >= iw {
				return rw(mkraw, Const(w, 0))
			}
			return rw(mkraw, Zext(Extract(iw-1, lo, a.A), w))
		case OpSext:
			iw := a.A.W
			if hi < iw {
				return rw(mkraw, Extract(hi, lo, a.A))
			}
		case OpBvAnd, OpBvOr, OpBvXor:
			return rw(mkraw, Bin(a.Op, Extract(hi, lo, a.A), Extract(hi, lo, a.B)))
		case OpBvNot:
			return rw(mkraw, BvNot(Extract(hi, lo, a.A)))
		case OpBvAdd, OpBvSub, OpBvMul:
			if lo == 0 {
				return rw(mkraw, Bin(a.Op, Extract(hi, 0, a.A), Extract(hi, 0, a.B)))
			}
		case OpBvNeg:
			if lo == 0 {
				return rw(mkraw, BvNeg(Extract(hi, 0, a.A)))
			}
		case OpIte:
			if a.B.IsConst() || a.C.IsConst() {
				return rw(mkraw, Ite(a.A, Extract(hi, lo, a.B), Extract(hi, lo, a.C)))
			}
		}
	}
	return intern(&Term{Op: OpExtract, W: w, A: a, Hi: hi, Lo: lo})
}

func Concat(a, b *Term) *Term {
	if a.W == 0 || b.W == 0 || a.W+b.W > 64 {
		panic(fmt.Sprintf("Concat widths %d %d", a.W, b.W))
	}
	w := a.W + b.W
	if Simplify {
		if a.IsConst() && b.IsConst() {
			return Const(w, a.Val<<uint(b.W)|b.Val)
		}
		if !Rewrite {
			return intern(&Term{Op: OpConcat, W: w, A: a, B: b})
		}
		mkraw := func() *Term { return raw(&Term{Op: OpConcat, W: w, A: a, B: b}) }
		if a.IsConst() && a.Val == 0 {
			return rw(mkraw, Zext(b, w))
		}
		// normalise to right-nested form
		if a.Op == OpConcat {
			return rw(mkraw, Concat(a.A, Concat(a.B, b)))
		}
		// zext(x) ++ y  ->  zext(x ++ y)
		if a.Op == OpZext {
			return rw(mkraw, Zext(Concat(a.A, b), w))
		}
		// merge adjacent extracts
		if a.Op == OpExtract {
			if b.Op == OpExtract && a.A == b.A && a.Lo == b.Hi+1 {
				return rw(mkraw, Extract(a.Hi, b.Lo, a.A))
			}
			if b.Op == OpConcat && b.A.Op == OpExtract && a.A == b.A.A && a.Lo == b.A.Hi+1 {
				return rw(mkraw, Concat(Extract(a.Hi, b.A.Lo, a.A), b.B))
			}
		}
		if a.IsConst() && b.Op == OpConcat && b.A.IsConst() {
			return rw(mkraw, Concat(Const(a.W+b.A.W, a.Val<<uint(b.A.W)|b.A.Val), b.B))
		}
	}
	return intern(&Term{Op: OpConcat, W: w, A: a, B: b})
}

func Zext(a *Term, w int) *Term {
	if a.W == 0 || w < a.W || w > 64 {
		panic(fmt.Sprintf("Zext %d -> %d", a.W, w))
	}
	if w == a.W {
		return a
	}
	if Simplify {
		if a.IsConst() {
			return Const(w, a.Val)
		}
		if a.Op == OpZext && Rewrite {
			return rw(func() *Term { return raw(&Term{Op: OpZext, W: w, A: a}) }, Zext(a.A, w))
		}
	}
	return intern(&Term{Op: OpZext, W: w, A: a})
}

func Sext(a *Term, w int) *Term {
	if a.W == 0 || w < a.W || w > 64 {
		panic(fmt.Sprintf("Sext %d -> %d", a.W, w))
	}
	if w == a.W {
		return a
	}
	if Simplify {
		if a.IsConst() {
			return Const(w, uint64(sext64(a.Val, a.W)))
		}
		if a.Op == OpZext && a.A.W < a.W && Rewrite {
			return rw(func() *Term { return raw(&Term{Op: OpSext, W: w, A: a}) }, Zext(a.A, w))
		}
		if a.Op == OpSext && Rewrite {
			return rw(func() *Term { return raw(&Term{Op: OpSext, W: w, A: a}) }, Sext(a.A, w))
		}
	}
	return intern(&Term{Op: OpSext, W: w, A: a})
}

// Resize converts a bit-vector to width w the way a Go integer conversion
// does: truncation, or extension according to the signedness of the source.
func Resize(a *Term, w int, signed bool) *Term {
	switch {
	case w == a.W:
		return a
	case w < a.W:
		return Extract(w-1, 0, a)
	case signed:
		return Sext(a, w)
	default:
		return Zext(a, w)
	}
}

// ---------- printing ----------

func sortStr(w int) string {
	if w == 0 {
		return "Bool"
	}
	return fmt.Sprintf("(_ BitVec %d)", w)
}

func SortStr(w int) string { return sortStr(w) }

func constStr(t *Term) string {
	if t.W == 0 {
		if t.Val != 0 {
			return "true"
		}
		return "false"
	}
	if t.W%4 == 0 {
		return fmt.Sprintf("#x%0*x", t.W/4, t.Val)
	}
	return fmt.Sprintf("#b%0*b", t.W, t.Val)
}

// Head prints the node with children referenced through ref.
func (t *Term) Head(ref func(*Term) string) string {
	switch t.Op {
	case OpConst:
		return constStr(t)
	case OpVar:
		return t.Name
	case OpNot, OpBvNot, OpBvNeg:
		return "(" + opNames[t.Op] + " " + ref(t.A) + ")"
	case OpIte:
		return "(ite " + ref(t.A) + " " + ref(t.B) + " " + ref(t.C) + ")"
	case OpExtract:
		return fmt.Sprintf("((_ extract %d %d) %s)", t.Hi, t.Lo, ref(t.A))
	case OpZext:
		return fmt.Sprintf("((_ zero_extend %d) %s)", t.W-t.A.W, ref(t.A))
	case OpSext:
		return fmt.Sprintf("((_ sign_extend %d) %s)", t.W-t.A.W, ref(t.A))
	default:
		return "(" + opNames[t.Op] + " " + ref(t.A) + " " + ref(t.B) + ")"
	}
}

// String prints the full (tree-expanded) term; for diagnostics on small terms.
func (t *Term) String() string {
	var sb strings.Builder
	n := 0
	var rec func(*Term) string
	rec = func(x *Term) string {
		n++
		if n > 400 {
			return "…"
		}
		return x.Head(rec)
	}
	sb.WriteString(rec(t))
	return sb.String()
}

// Vars collects the variables of t into set.
func (t *Term) Vars(set map[*Term]bool, seen map[*Term]bool) {
	if t == nil || seen[t] {
		return
	}
	seen[t] = true
	if t.Op == OpVar {
		set[t] = true
		return
	}
	t.A.Vars(set, seen)
	t.B.Vars(set, seen)
	t.C.Vars(set, seen)
}

// Eval evaluates t under a (total on t's variables) assignment.
func Eval(t *Term, env map[string]uint64, memo map[*Term]uint64) uint64 {
	if v, ok := memo[t]; ok {
		return v
	}
	var r uint64
	switch t.Op {
	case OpConst:
		r = t.Val
	case OpVar:
		r = env[t.Name] & mask1(t.W)
	case OpNot:
		r = 1 ^ Eval(t.A, env, memo)
	case OpAnd:
		r = Eval(t.A, env, memo) & Eval(t.B, env, memo)
	case OpOr:
		r = Eval(t.A, env, memo) | Eval(t.B, env, memo)
	case OpIte:
		if Eval(t.A, env, memo) != 0 {
			r = Eval(t.B, env, memo)
		} else {
			r = Eval(t.C, env, memo)
		}
	case OpEq:
		if Eval(t.A, env, memo) == Eval(t.B, env, memo) {
			r = 1
		}
	case OpBvNot:
		r = ^Eval(t.A, env, memo) & mask(t.W)
	case OpBvNeg:
		r = -Eval(t.A, env, memo) & mask(t.W)
	case OpUlt, OpSlt, OpUle, OpSle:
		if cmpFold(t.Op, t.A.W, Eval(t.A, env, memo), Eval(t.B, env, memo)) {
			r = 1
		}
	case OpExtract:
		r = (Eval(t.A, env, memo) >> uint(t.Lo)) & mask(t.W)
	case OpConcat:
		r = Eval(t.A, env, memo)<<uint(t.B.W) | Eval(t.B, env, memo)
	case OpZext:
		r = Eval(t.A, env, memo)
	case OpSext:
		r = uint64(sext64(Eval(t.A, env, memo), t.A.W)) & mask(t.W)
	default:
		v, ok := foldBin(t.Op, t.W, Eval(t.A, env, memo), Eval(t.B, env, memo))
		if !ok {
			panic("Eval: op " + opNames[t.Op])
		}
		r = v
	}
	memo[t] = r
	return r
}

func mask1(w int) uint64 {
	if w == 0 {
		return 1
	}
	return mask(w)
}

// RawLike builds a node with the operator and parameters of t over new
// children, without any simplification.
func RawLike(t *Term, a, b, c *Term) *Term {
	n := &Term{Op: t.Op, W: t.W, A: a, B: b, C: c, Val: t.Val, Hi: t.Hi, Lo: t.Lo, Name: t.Name}
	return intern(n)
}

// Abstract generalises the rewrite lemma raw == res: subterms of raw at depth
// D (and deeper) are replaced by placeholder variables, consistently in both
// sides. If the abstract lemma is valid then so is the instance.
func Abstract(raw, res *Term, depth int) (*Term, *Term) {
	ph := map[*Term]*Term{}
	n := 0
	var up func(t *Term, d int) *Term
	up = func(t *Term, d int) *Term {
		if t == nil {
			return nil
		}
		if t.Op == OpConst {
			return t
		}
		if p, ok := ph[t]; ok {
			return p
		}
		if d >= depth || t.Op == OpVar {
			p := Var(fmt.Sprintf("ph%d_w%d", n, t.W), t.W)
			n++
			ph[t] = p
			return p
		}
		return RawLike(t, up(t.A, d+1), up(t.B, d+1), up(t.C, d+1))
	}
	araw := up(raw, 0)
	memo := map[*Term]*Term{}
	var sub func(t *Term) *Term
	sub = func(t *Term) *Term {
		if t == nil {
			return nil
		}
		if t.Op == OpConst {
			return t
		}
		if p, ok := ph[t]; ok {
			return p
		}
		if m, ok := memo[t]; ok {
			return m
		}
		var r *Term
		if t.Op == OpVar {
			r = t
		} else {
			r = RawLike(t, sub(t.A), sub(t.B), sub(t.C))
		}
		memo[t] = r
		return r
	}
	return araw, sub(res)
}

// ubits returns k such that t < 2^k is structurally evident (k <= t.W).
func ubits(t *Term) int {
	switch t.Op {
	case OpConst:
		return bits.Len64(t.Val)
	case OpZext:
		return ubits(t.A)
	case OpIte:
		a, b := ubits(t.B), ubits(t.C)
		if a > b {
			return a
		}
		return b
	case OpBvAnd:
		a, b := ubits(t.A), ubits(t.B)
		if a < b {
			return a
		}
		return b
	}
	return t.W
}

// constLeaves reports whether t is a tree of ites over constants (bounded depth).
func constLeaves(t *Term, d int) bool {
	if t.IsConst() {
		return true
	}
	if t.Op != OpIte || d > 600 {
		return false
	}
	return constLeaves(t.B, d+1) && constLeaves(t.C, d+1)
}
