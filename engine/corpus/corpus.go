// Package corpus generates the Bebop schema corpus used by the codec checks
// (C01-C09), together with Go "glue" for every generated package: a
// nondeterministic value constructor, a structural equality, a reference wire
// encoder and the harness functions. Nothing here imports the repository: the
// schemas come from this package's own AST and the reference encoder is
// written from the wire-format description in the property statements.
package corpus

import (
	"fmt"
	"sort"
	"strings"
)

type Type struct {
	Kind string // prim | enum | rec | array | map
	Name string // primitive name, enum name or record name
	Elem *Type  // array element / map value
	Key  string // map key primitive
}

type Field struct {
	Name       string
	Type       *Type
	Index      int
	Deprecated bool
}

type EnumMember struct {
	Name  string
	Value string
}

type Def struct {
	Kind     string // enum | struct | message | union
	Name     string
	ReadOnly bool
	Base     string // enum base type
	Members  []EnumMember
	Fields   []Field
	Branches []Branch
	// Imported: the definition lives in the imported file dep/dep.bop (Go
	// package "dep" in separate import mode)
	Imported bool
}

type Branch struct {
	Index int
	Def   *Def
}

type Schema struct {
	Defs []*Def
}

// Pkg is one corpus entry: a schema whose record under test is named Rec.
type Pkg struct {
	Name    string // directory and package name
	Schema  *Schema
	Shape   string // human-readable description: leaf/constructor/context
	Leaf    string
	Ctor    string
	Context string
	Deep    bool // depth-2 constructor: tighter string bound
	LongStr bool // strings take a length out of {0, 8, 9, 17} instead of 0..MaxStr
	// ImportMode: "" (single file), "separate" or "combined": the leaf's
	// definitions sit in an imported file, generated in that import mode
	ImportMode string
}

// ---------- .bop text ----------

func (t *Type) Bop() string {
	switch t.Kind {
	case "array":
		return t.Elem.Bop() + "[]"
	case "map":
		return "map[" + t.Key + ", " + t.Elem.Bop() + "]"
	}
	return t.Name
}

func (d *Def) bop(sb *strings.Builder, ind string) {
	switch d.Kind {
	case "enum":
		fmt.Fprintf(sb, "%senum %s : %s {\n", ind, d.Name, d.Base)
		for _, m := range d.Members {
			fmt.Fprintf(sb, "%s    %s = %s;\n", ind, m.Name, m.Value)
		}
		fmt.Fprintf(sb, "%s}\n", ind)
	case "struct":
		ro := ""
		if d.ReadOnly {
			ro = "readonly "
		}
		fmt.Fprintf(sb, "%s%sstruct %s {\n", ind, ro, d.Name)
		for _, f := range d.Fields {
			fmt.Fprintf(sb, "%s    %s %s;\n", ind, f.Type.Bop(), f.Name)
		}
		fmt.Fprintf(sb, "%s}\n", ind)
	case "message":
		fmt.Fprintf(sb, "%smessage %s {\n", ind, d.Name)
		for _, f := range d.Fields {
			if f.Deprecated {
				fmt.Fprintf(sb, "%s    [deprecated(\"old\")]\n", ind)
			}
			fmt.Fprintf(sb, "%s    %d -> %s %s;\n", ind, f.Index, f.Type.Bop(), f.Name)
		}
		fmt.Fprintf(sb, "%s}\n", ind)
	case "union":
		fmt.Fprintf(sb, "%sunion %s {\n", ind, d.Name)
		for _, b := range d.Branches {
			var inner strings.Builder
			b.Def.bop(&inner, ind+"    ")
			s := strings.TrimLeft(inner.String(), " ")
			fmt.Fprintf(sb, "%s    %d -> %s", ind, b.Index, s)
		}
		fmt.Fprintf(sb, "%s}\n", ind)
	}
}

func (s *Schema) Bop() string {
	var sb strings.Builder
	for _, d := range s.Defs {
		if d.Imported {
			continue
		}
		d.bop(&sb, "")
		sb.WriteString("\n")
	}
	return sb.String()
}

// HasImports reports whether some definitions live in the imported file.
func (s *Schema) HasImports() bool {
	for _, d := range s.Defs {
		if d.Imported {
			return true
		}
	}
	return false
}

// MainBop is the text of the importing file (go_package is the Go import
// path of the package generated from it).
func (s *Schema) MainBop(goPackage string) string {
	return fmt.Sprintf("import \"dep/dep.bop\"\n\nconst string go_package = %q;\n\n", goPackage) + s.Bop()
}

// DepBop is the text of the imported file.
func (s *Schema) DepBop(goPackage string) string {
	var sb strings.Builder
	if goPackage != "" {
		fmt.Fprintf(&sb, "const string go_package = %q;\n\n", goPackage)
	}
	for _, d := range s.Defs {
		if d.Imported {
			d.bop(&sb, "")
			sb.WriteString("\n")
		}
	}
	return sb.String()
}

// AllDefs lists every definition including union branches (branches first).
func (s *Schema) AllDefs() []*Def {
	var out []*Def
	for _, d := range s.Defs {
		if d.Kind == "union" {
			for _, b := range d.Branches {
				out = append(out, b.Def)
			}
		}
		out = append(out, d)
	}
	return out
}

func (s *Schema) Find(name string) *Def {
	for _, d := range s.AllDefs() {
		if d.Name == name {
			return d
		}
	}
	return nil
}

// Kinds maps Go type names (exported spelling) to record kinds.
func (s *Schema) Kinds() map[string]string {
	m := map[string]string{}
	for _, d := range s.AllDefs() {
		k := d.Kind
		if d.ReadOnly {
			k = "rostruct"
		}
		m[d.Name] = k
	}
	return m
}

// ---------- leaves ----------

var Prims = []string{"bool", "byte", "uint8", "uint16", "int16", "uint32", "int32", "uint64", "int64", "float32", "float64", "string", "guid", "date"}

var EnumBases = []string{"uint8", "uint16", "int16", "uint32", "int32", "uint64", "int64"}

func prim(n string) *Type        { return &Type{Kind: "prim", Name: n} }
func arr(t *Type) *Type          { return &Type{Kind: "array", Elem: t} }
func mp(k string, v *Type) *Type { return &Type{Kind: "map", Key: k, Elem: v} }

func enumName(base string) string { return "E" + strings.ToUpper(base[:1]) + base[1:] }

func enumDef(base string) *Def {
	return &Def{Kind: "enum", Name: enumName(base), Base: base, Members: []EnumMember{{"A" + enumName(base), "1"}, {"B" + enumName(base), "2"}}}
}

// leafDefs returns the definitions a record leaf needs (dependencies first).
func leafDefs(name string) []*Def {
	switch name {
	case "Fixed":
		return []*Def{{Kind: "struct", Name: "Fixed", Fields: []Field{{Name: "a", Type: prim("int32")}, {Name: "b", Type: prim("uint8")}}}}
	case "StrS":
		return []*Def{{Kind: "struct", Name: "StrS", Fields: []Field{{Name: "s", Type: prim("string")}, {Name: "n", Type: prim("int16")}}}}
	case "Empty":
		return []*Def{{Kind: "struct", Name: "Empty"}}
	case "EmptyM":
		return []*Def{{Kind: "message", Name: "EmptyM"}}
	case "SM":
		// a struct that contains a message: its wire size is not a function of its type
		return []*Def{
			{Kind: "message", Name: "SMm", Fields: []Field{{Name: "a", Type: prim("int32"), Index: 1}, {Name: "b", Type: prim("string"), Index: 2}}},
			{Kind: "struct", Name: "SM", Fields: []Field{{Name: "m", Type: &Type{Kind: "rec", Name: "SMm"}}, {Name: "s", Type: prim("string")}}},
		}
	case "RO":
		return []*Def{{Kind: "struct", Name: "RO", ReadOnly: true, Fields: []Field{{Name: "x", Type: prim("uint16")}, {Name: "s", Type: prim("string")}}}}
	case "Msg":
		return []*Def{{Kind: "message", Name: "Msg", Fields: []Field{{Name: "x", Type: prim("int32"), Index: 1}, {Name: "s", Type: prim("string"), Index: 2}}}}
	case "MsgD":
		return []*Def{{Kind: "message", Name: "MsgD", Fields: []Field{{Name: "x", Type: prim("int32"), Index: 1}, {Name: "old", Type: prim("uint16"), Index: 2, Deprecated: true}, {Name: "y", Type: prim("byte"), Index: 3}}}}
	case "Uni":
		return []*Def{{Kind: "union", Name: "Uni", Branches: []Branch{
			{1, &Def{Kind: "struct", Name: "UniS", Fields: []Field{{Name: "a", Type: prim("uint32")}}}},
			{2, &Def{Kind: "message", Name: "UniM", Fields: []Field{{Name: "b", Type: prim("string"), Index: 1}}}},
		}}}
	case "RecM":
		return []*Def{{Kind: "message", Name: "RecM", Fields: []Field{{Name: "v", Type: prim("uint8"), Index: 1}, {Name: "next", Type: &Type{Kind: "rec", Name: "RecM"}, Index: 2}}}}
	}
	panic("unknown leaf " + name)
}

var RecordLeaves = []string{"Fixed", "StrS", "Empty", "EmptyM", "SM", "RO", "Msg", "MsgD", "Uni", "RecM"}

type leaf struct {
	name string
	typ  *Type
	defs []*Def
}

func AllLeaves() []leaf {
	var ls []leaf
	for _, p := range Prims {
		ls = append(ls, leaf{name: p, typ: prim(p)})
	}
	for _, b := range EnumBases {
		ls = append(ls, leaf{name: enumName(b), typ: &Type{Kind: "enum", Name: enumName(b)}, defs: []*Def{enumDef(b)}})
	}
	for _, r := range RecordLeaves {
		ls = append(ls, leaf{name: r, typ: &Type{Kind: "rec", Name: r}, defs: leafDefs(r)})
	}
	return ls
}

type ctor struct {
	name  string
	build func(t *Type) *Type
}

var Ctors = []ctor{
	{"T", func(t *Type) *Type { return t }},
	{"T[]", func(t *Type) *Type { return arr(t) }},
	{"map[uint32,T]", func(t *Type) *Type { return mp("uint32", t) }},
	{"map[string,T]", func(t *Type) *Type { return mp("string", t) }},
	{"T[][]", func(t *Type) *Type { return arr(arr(t)) }},
	{"map[uint32,T[]]", func(t *Type) *Type { return mp("uint32", arr(t)) }},
	{"map[uint32,T][]", func(t *Type) *Type { return arr(mp("uint32", t)) }},
	{"map[uint32,map[string,T]]", func(t *Type) *Type { return mp("uint32", mp("string", t)) }},
}

var Contexts = []string{"struct", "rostruct", "message", "union"}

// buildRec wraps field type ft in the given context as definition(s) named Rec.
func buildRec(ft *Type, context string, sentinel bool) []*Def {
	sf := Field{Name: "after", Type: prim("int32")}
	switch context {
	case "struct", "rostruct":
		d := &Def{Kind: "struct", Name: "Rec", ReadOnly: context == "rostruct", Fields: []Field{{Name: "f", Type: ft}}}
		if sentinel {
			d.Fields = append(d.Fields, sf)
		}
		return []*Def{d}
	case "message":
		d := &Def{Kind: "message", Name: "Rec", Fields: []Field{{Name: "f", Type: ft, Index: 1}}}
		if sentinel {
			sf.Index = 2
			d.Fields = append(d.Fields, sf)
		}
		return []*Def{d}
	case "union":
		s := &Def{Kind: "struct", Name: "RecBS", Fields: []Field{{Name: "f", Type: ft}}}
		m := &Def{Kind: "message", Name: "RecBM", Fields: []Field{{Name: "f", Type: ft, Index: 1}}}
		if sentinel {
			s.Fields = append(s.Fields, sf)
			sf.Index = 2
			m.Fields = append(m.Fields, sf)
		}
		return []*Def{{Kind: "union", Name: "Rec", Branches: []Branch{{1, s}, {2, m}}}}
	}
	panic("context " + context)
}

// Tier selects the corpus size.
type Tier struct {
	Name     string
	MaxArr   int
	MaxStr   int
	MaxMap   int
	MaxDepth int
}

var Quick = Tier{Name: "quick", MaxArr: 2, MaxStr: 2, MaxMap: 2, MaxDepth: 2}
var Thorough = Tier{Name: "thorough", MaxArr: 2, MaxStr: 3, MaxMap: 2, MaxDepth: 2}

// MapKeyTypes are the primitives used as map keys in the dedicated key shapes.
var MapKeyTypes = []string{"bool", "byte", "uint16", "int16", "int32", "uint64", "int64", "float32", "float64", "string", "guid", "date"}

// Shapes enumerates the corpus for a tier. sel filters: "all" or a comma list
// of shape-name substrings.
func Shapes(tier string) []*Pkg { return ShapesProfile(tier, "full") }

var liteLeaves = map[string]bool{"bool": true, "byte": true, "int32": true, "string": true, "guid": true, "date": true, "EUint16": true, "Fixed": true, "StrS": true, "Empty": true, "EmptyM": true, "SM": true, "Msg": true, "Uni": true, "RecM": true}

// ShapesProfile enumerates the corpus; profile "lite" (used in the quick tier
// by the checks whose cost grows with the encoding length: cut points, fault
// points, corruption windows) keeps every leaf as a plain field and the
// containers over a leaf subset.
func ShapesProfile(tier, profile string) []*Pkg {
	var out []*Pkg
	add := func(lf leaf, ct ctor, cx string, ft *Type) {
		defs := append([]*Def{}, lf.defs...)
		defs = append(defs, buildRec(ft, cx, true)...)
		p := &Pkg{Schema: &Schema{Defs: defs}, Leaf: lf.name, Ctor: ct.name, Context: cx}
		p.Deep = strings.Count(ct.name, "[") >= 2
		p.Shape = fmt.Sprintf("%s in %s of %s", ct.name, cx, lf.name)
		out = append(out, p)
	}
	leaves := AllLeaves()
	for _, lf := range leaves {
		for ci, ct := range Ctors {
			for _, cx := range Contexts {
				if tier == "quick" {
					// depth <= 1 over all leaves in struct and message contexts; readonly and
					// union contexts and depth-2 constructors over a leaf subset
					deep := ci >= 4
					sub := lf.name == "int32" || lf.name == "string" || lf.name == "Msg" || lf.name == "Fixed" || lf.name == "EUint16"
					side := cx == "rostruct" || cx == "union"
					if ci == 3 && !sub {
						continue
					}
					if (deep || side) && !sub {
						continue
					}
					if deep && side {
						continue
					}
				}
				if profile == "lite" && tier == "quick" {
					if ci > 0 && !liteLeaves[lf.name] {
						continue
					}
					nestedRecs := ci == 4 && cx == "struct" && (lf.name == "Fixed" || lf.name == "Msg" || lf.name == "StrS")
					if !nestedRecs && (ci == 3 || (ci >= 4 && !(lf.name == "int32" || lf.name == "string")) || (ci >= 4 && cx != "struct")) {
						continue
					}
				}
				add(lf, ct, cx, ct.build(lf.typ))
			}
		}
	}
	// map key types
	i32 := leaf{name: "int32", typ: prim("int32")}
	for _, k := range MapKeyTypes {
		k := k
		if profile == "lite" && tier == "quick" && !(k == "bool" || k == "string" || k == "guid" || k == "float64") {
			continue
		}
		add(i32, ctor{name: "map[" + k + ",T]"}, "struct", mp(k, prim("int32")))
		if tier != "quick" {
			add(i32, ctor{name: "map[" + k + ",T]"}, "message", mp(k, prim("int32")))
		}
	}
	// records that END with the field under test (no sentinel): the last value
	// of a top-level encoding sits at the very end of the buffer
	for _, lf := range leaves {
		if profile == "lite" && tier == "quick" && !liteLeaves[lf.name] {
			continue
		}
		for ci, ct := range Ctors[:2] {
			if ci == 1 && !(lf.name == "string" || lf.name == "int32" || lf.name == "StrS" || lf.name == "Msg" || lf.name == "Empty" || lf.name == "EmptyM") {
				continue
			}
			for _, cx := range []string{"struct", "message"} {
				defs := append([]*Def{}, lf.defs...)
				defs = append(defs, buildRec(ct.build(lf.typ), cx, false)...)
				p := &Pkg{Schema: &Schema{Defs: defs}, Leaf: lf.name, Ctor: ct.name, Context: cx}
				p.Shape = fmt.Sprintf("%s as the last field of a %s of %s", ct.name, cx, lf.name)
				out = append(out, p)
			}
		}
	}
	// long strings in front of every 8-byte scalar (scratch-buffer interactions)
	for _, cx := range []string{"struct", "message"} {
		fields := []Field{{Name: "s", Type: prim("string")}, {Name: "a", Type: prim("uint64")}, {Name: "t", Type: prim("string")}, {Name: "b", Type: prim("float64")}, {Name: "d", Type: prim("date")}, {Name: "c", Type: prim("int64")}, {Name: "after", Type: prim("int32")}}
		d := &Def{Kind: "struct", Name: "Rec", Fields: fields}
		if cx == "message" {
			d = &Def{Kind: "message", Name: "Rec"}
			fields = []Field{fields[0], fields[1], fields[4], fields[6]}
			for i, f := range fields {
				f.Index = i + 1
				d.Fields = append(d.Fields, f)
			}
		}
		p := &Pkg{Schema: &Schema{Defs: []*Def{d}}, Leaf: "string", Ctor: "long-strings", Context: cx, LongStr: true}
		p.Shape = "long strings (0, 8, 9, 17 bytes) before 8-byte scalars in a " + cx
		out = append(out, p)
	}
	// wide records: more than 256 bytes of consecutive fixed-size fields (size
	// arithmetic done in a narrow type overflows here and nowhere else)
	for _, cx := range []string{"struct", "rostruct"} {
		var fields []Field
		for i := 0; i < 17; i++ {
			fields = append(fields, Field{Name: fmt.Sprintf("g%d", i), Type: prim("guid")})
		}
		fields = append(fields, Field{Name: "after", Type: prim("int32")})
		d := &Def{Kind: "struct", Name: "Rec", ReadOnly: cx == "rostruct", Fields: fields}
		p := &Pkg{Schema: &Schema{Defs: []*Def{d}}, Leaf: "guid", Ctor: "wide", Context: cx}
		p.Shape = "17 guid fields (272 bytes of fixed-size fields in a row) in a " + cx
		out = append(out, p)
	}
	// the leaf's definitions live in an imported file: separate mode (own Go
	// package, namespaced type names in the importing code) and combined mode
	for _, lf := range leaves {
		if !(lf.name == "Fixed" || lf.name == "Msg" || lf.name == "Uni" || lf.name == "EUint16" || lf.name == "StrS") {
			continue
		}
		for ci, ct := range Ctors[:3] {
			if profile == "lite" && tier == "quick" && (ci == 2 || lf.name == "StrS") {
				continue
			}
			for _, cx := range []string{"struct", "message"} {
				for _, mode := range []string{"separate", "combined"} {
					if mode == "combined" && !(ci == 1 && cx == "struct") && tier == "quick" {
						continue
					}
					var defs []*Def
					for _, d := range lf.defs {
						cp := *d
						cp.Imported = true
						defs = append(defs, &cp)
					}
					defs = append(defs, buildRec(ct.build(lf.typ), cx, true)...)
					p := &Pkg{Schema: &Schema{Defs: defs}, Leaf: lf.name, Ctor: ct.name, Context: cx, ImportMode: mode}
					p.Shape = fmt.Sprintf("%s in %s of %s imported from another file (%s mode)", ct.name, cx, lf.name, mode)
					out = append(out, p)
				}
			}
		}
	}
	// the record itself has no fields (a message still occupies length + terminator)
	for _, cx := range []string{"struct", "message"} {
		d := &Def{Kind: cx, Name: "Rec"}
		p := &Pkg{Schema: &Schema{Defs: []*Def{d}}, Leaf: "none", Ctor: "empty-record", Context: cx}
		p.Shape = "a " + cx + " without fields as the record"
		out = append(out, p)
	}
	for i, p := range out {
		p.Name = fmt.Sprintf("r%04d", i)
	}
	return out
}

// ---------- Go glue ----------

// Opts mirrors the generator options that change Go spelling.
type Opts struct {
	Private bool
	NoMust  bool // MustUnmarshalBebop not generated
}

func expose(name string, private bool) string {
	if name == "" {
		return ""
	}
	if private {
		return strings.ToLower(name[:1]) + name[1:]
	}
	return strings.ToUpper(name[:1]) + name[1:]
}

func unexpose(name string) string { return strings.ToLower(name[:1]) + name[1:] }

var primGo = map[string]string{"bool": "bool", "byte": "byte", "uint8": "uint8", "uint16": "uint16", "int16": "int16", "uint32": "uint32", "int32": "int32",
	"uint64": "uint64", "int64": "int64", "float32": "float32", "float64": "float64", "string": "string", "guid": "[16]byte", "date": "time.Time"}

var primWidth = map[string]int{"bool": 1, "byte": 1, "uint8": 1, "uint16": 2, "int16": 2, "uint32": 4, "int32": 4, "uint64": 8, "int64": 8, "float32": 4, "float64": 8, "guid": 16, "date": 8}

type gen struct {
	longStr   bool
	cross     bool            // emit cross-version equality (calls xEq_ instead of vEq_)
	depPrefix string          // "dep." when imported definitions are generated into their own Go package
	imported  map[string]bool // names of imported definitions (including union branches)
	depr      bool            // deprecated message fields take part in equality and reference encoding
	sfx       string          // name suffix of the equality/reference functions being emitted
	sb        strings.Builder
	s         *Schema
	o         Opts
	tmp       int
	tier      Tier
}

func (g *gen) p(format string, a ...interface{}) { fmt.Fprintf(&g.sb, format, a...) }

func (g *gen) fresh(prefix string) string {
	g.tmp++
	return fmt.Sprintf("%s%d", prefix, g.tmp)
}

func (g *gen) typeName(n string) string {
	if g.depPrefix != "" {
		if d := g.s.Find(n); d != nil && g.imported[d.Name] {
			return g.depPrefix + expose(n, g.o.Private)
		}
	}
	return expose(n, g.o.Private)
}

func (g *gen) goType(t *Type) string {
	switch t.Kind {
	case "prim":
		return primGo[t.Name]
	case "enum", "rec":
		return g.typeName(t.Name)
	case "array":
		return "[]" + g.goType(t.Elem)
	case "map":
		return "map[" + primGo[t.Key] + "]" + g.goType(t.Elem)
	}
	panic("goType")
}

func (g *gen) fieldName(d *Def, f Field) string {
	if d.ReadOnly {
		return unexpose(f.Name)
	}
	return expose(f.Name, g.o.Private)
}

func (g *gen) enumBase(name string) string { return g.s.Find(name).Base }

func nondetInt(goType string, w int) string {
	return fmt.Sprintf("%s(vstub.NondetU%d())", goType, w*8)
}

// nondet emits statements assigning an arbitrary valid value to dst.
func (g *gen) nondet(t *Type, dst, ind string) {
	switch t.Kind {
	case "prim":
		switch t.Name {
		case "bool":
			g.p("%s%s = vstub.NondetBool()\n", ind, dst)
		case "float32":
			g.p("%s%s = math.Float32frombits(vstub.NondetU32())\n", ind, dst)
		case "float64":
			g.p("%s%s = math.Float64frombits(vstub.NondetU64())\n", ind, dst)
		case "string":
			if g.longStr {
				g.p("%s%s = vstub.NondetString([]int{0, 8, 9, 17}[vstub.Choose(0, 3)])\n", ind, dst)
			} else {
				g.p("%s%s = vstub.NondetString(vstub.Choose(0, vMaxStr))\n", ind, dst)
			}
		case "guid":
			g.p("%s%s = vstub.NondetGUID()\n", ind, dst)
		case "date":
			g.p("%s%s = vstub.NondetDate()\n", ind, dst)
		default:
			g.p("%s%s = %s\n", ind, dst, nondetInt(primGo[t.Name], primWidth[t.Name]))
		}
	case "enum":
		g.p("%s%s = %s\n", ind, dst, nondetInt(g.typeName(t.Name), primWidth[g.enumBase(t.Name)]))
	case "rec":
		g.p("%s%s = vNondet_%s(d + 1)\n", ind, dst, t.Name)
	case "array":
		if t.Elem.Kind == "prim" && (t.Elem.Name == "byte" || t.Elem.Name == "uint8") {
			n := g.fresh("n")
			g.p("%sif %s := vstub.Choose(0, vMaxStr); %s > 0 {\n%s\t%s = vstub.NondetBytes(%s)\n%s}\n", ind, n, n, ind, dst, n, ind)
			return
		}
		n, i := g.fresh("n"), g.fresh("i")
		g.p("%sif %s := vstub.Choose(0, vMaxArr); %s > 0 {\n", ind, n, n)
		g.p("%s\t%s = make(%s, %s)\n", ind, dst, g.goType(t), n)
		g.p("%s\tfor %s := range %s {\n", ind, i, dst)
		g.nondet(t.Elem, fmt.Sprintf("%s[%s]", dst, i), ind+"\t\t")
		g.p("%s\t}\n%s}\n", ind, ind)
	case "map":
		n, ks, i, j, val := g.fresh("n"), g.fresh("ks"), g.fresh("i"), g.fresh("j"), g.fresh("val")
		maxN := "vMaxMap"
		if t.Key == "bool" {
			maxN = "2"
		}
		g.p("%sif %s := vstub.Choose(0, %s); %s > 0 {\n", ind, n, maxN, n)
		g.p("%s\t%s := make([]%s, %s)\n", ind, ks, primGo[t.Key], n)
		g.p("%s\tfor %s := range %s {\n", ind, i, ks)
		if t.Key == "date" {
			g.p("%s\t\t%s[%s] = vstub.NondetDateKey()\n", ind, ks, i)
		} else {
			g.nondet(prim(t.Key), fmt.Sprintf("%s[%s]", ks, i), ind+"\t\t")
		}
		if t.Key == "float32" || t.Key == "float64" {
			g.p("%s\t\tvstub.Assume(%s[%s] == %s[%s])\n", ind, ks, i, ks, i)
		}
		g.p("%s\t\tfor %s := 0; %s < %s; %s++ {\n", ind, j, j, i, j)
		if t.Key == "date" {
			g.p("%s\t\t\tvstub.Assume(!vstub.DateEq(%s[%s], %s[%s]))\n", ind, ks, j, ks, i)
		} else {
			g.p("%s\t\t\tvstub.Assume(%s[%s] != %s[%s])\n", ind, ks, j, ks, i)
		}
		g.p("%s\t\t}\n%s\t}\n", ind, ind)
		g.p("%s\t%s = make(%s, %s)\n", ind, dst, g.goType(t), n)
		g.p("%s\tfor %s := range %s {\n", ind, i, ks)
		g.p("%s\t\tvar %s %s\n", ind, val, g.goType(t.Elem))
		g.nondet(t.Elem, val, ind+"\t\t")
		g.p("%s\t\t%s[%s[%s]] = %s\n", ind, dst, ks, i, val)
		g.p("%s\t}\n%s}\n", ind, ind)
	}
}

// eq emits statements accumulating equality of a and b into ok.
func (g *gen) eq(t *Type, a, b, ind string) {
	switch t.Kind {
	case "prim":
		switch t.Name {
		case "float32":
			g.p("%sok = vstub.And(ok, math.Float32bits(%s) == math.Float32bits(%s))\n", ind, a, b)
		case "float64":
			g.p("%sok = vstub.And(ok, math.Float64bits(%s) == math.Float64bits(%s))\n", ind, a, b)
		case "date":
			g.p("%sok = vstub.And(ok, vstub.DateEq(%s, %s))\n", ind, a, b)
		default:
			g.p("%sok = vstub.And(ok, %s == %s)\n", ind, a, b)
		}
	case "enum":
		g.p("%sok = vstub.And(ok, %s == %s)\n", ind, a, b)
	case "rec":
		if g.cross {
			g.p("%sok = vstub.And(ok, xEq_%s(%s, %s))\n", ind, t.Name, a, b)
		} else {
			g.p("%sok = vstub.And(ok, vEq%s_%s(%s, %s))\n", ind, g.sfx, t.Name, a, b)
		}
	case "array":
		i := g.fresh("i")
		g.p("%sif len(%s) != len(%s) {\n%s\tok = false\n%s} else {\n", ind, a, b, ind, ind)
		g.p("%s\tfor %s := range %s {\n", ind, i, a)
		g.eq(t.Elem, fmt.Sprintf("%s[%s]", a, i), fmt.Sprintf("%s[%s]", b, i), ind+"\t\t")
		g.p("%s\t}\n%s}\n", ind, ind)
	case "map":
		k, va, vb, has := g.fresh("k"), g.fresh("va"), g.fresh("vb"), g.fresh("has")
		g.p("%sif len(%s) != len(%s) {\n%s\tok = false\n%s} else {\n", ind, a, b, ind, ind)
		g.p("%s\tfor %s, %s := range %s {\n", ind, k, va, a)
		g.p("%s\t\t%s, %s := %s[%s]\n", ind, vb, has, b, k)
		g.p("%s\t\tif !%s {\n%s\t\t\tok = false\n%s\t\t} else {\n", ind, has, ind, ind)
		g.eq(t.Elem, va, vb, ind+"\t\t\t")
		g.p("%s\t\t}\n%s\t}\n%s}\n", ind, ind, ind)
	}
}

// ref emits statements appending the reference encoding of v to out.
func (g *gen) ref(t *Type, v, ind string) {
	switch t.Kind {
	case "prim":
		switch t.Name {
		case "bool":
			g.p("%sout = append(out, vstub.B2U8(%s))\n", ind, v)
		case "byte", "uint8":
			g.p("%sout = append(out, byte(%s))\n", ind, v)
		case "uint16", "int16":
			g.p("%sout = vstub.PutU16(out, uint16(%s))\n", ind, v)
		case "uint32", "int32":
			g.p("%sout = vstub.PutU32(out, uint32(%s))\n", ind, v)
		case "uint64", "int64":
			g.p("%sout = vstub.PutU64(out, uint64(%s))\n", ind, v)
		case "float32":
			g.p("%sout = vstub.PutU32(out, math.Float32bits(%s))\n", ind, v)
		case "float64":
			g.p("%sout = vstub.PutU64(out, math.Float64bits(%s))\n", ind, v)
		case "string":
			g.p("%sout = vstub.PutU32(out, uint32(len(%s)))\n%sout = append(out, %s...)\n", ind, v, ind, v)
		case "guid":
			g.p("%sout = vstub.PutGUID(out, %s)\n", ind, v)
		case "date":
			g.p("%sout = vstub.PutDate(out, %s)\n", ind, v)
		}
	case "enum":
		switch primWidth[g.enumBase(t.Name)] {
		case 1:
			g.p("%sout = append(out, byte(%s))\n", ind, v)
		case 2:
			g.p("%sout = vstub.PutU16(out, uint16(%s))\n", ind, v)
		case 4:
			g.p("%sout = vstub.PutU32(out, uint32(%s))\n", ind, v)
		case 8:
			g.p("%sout = vstub.PutU64(out, uint64(%s))\n", ind, v)
		}
	case "rec":
		g.p("%sout = vRef%s_%s(out, %s)\n", ind, g.sfx, t.Name, v)
	case "array":
		e := g.fresh("e")
		g.p("%sout = vstub.PutU32(out, uint32(len(%s)))\n", ind, v)
		g.p("%sfor _, %s := range %s {\n", ind, e, v)
		g.ref(t.Elem, e, ind+"\t")
		g.p("%s}\n", ind)
	case "map":
		k, e := g.fresh("k"), g.fresh("e")
		g.p("%sout = vstub.PutU32(out, uint32(len(%s)))\n", ind, v)
		g.p("%sfor %s, %s := range %s {\n", ind, k, e, v)
		g.ref(prim(t.Key), k, ind+"\t")
		g.ref(t.Elem, e, ind+"\t")
		g.p("%s}\n", ind)
	}
}

// defGlue emits the value constructor (once) and, for the current name suffix,
// equality and reference encoder. With suffix "D" (g.depr) deprecated message
// fields take part: the encoding an older writer would produce and equality
// on everything that was on the wire.
func (g *gen) defGlue(d *Def) {
	tn := g.typeName(d.Name)
	switch d.Kind {
	case "enum":
		return
	case "struct":
		if !g.depr {
			g.p("func vNondet_%s(d int) (v %s) {\n", d.Name, tn)
			for _, f := range d.Fields {
				g.nondet(f.Type, "v."+g.fieldName(d, f), "\t")
			}
			g.p("\treturn v\n}\n\n")
		}
		g.p("func vEq%s_%s(a, b %s) bool {\n\tok := true\n", g.sfx, d.Name, tn)
		for _, f := range d.Fields {
			g.eq(f.Type, "a."+g.fieldName(d, f), "b."+g.fieldName(d, f), "\t")
		}
		g.p("\treturn ok\n}\n\n")
		g.p("func vRef%s_%s(out []byte, v %s) []byte {\n", g.sfx, d.Name, tn)
		for _, f := range d.Fields {
			g.ref(f.Type, "v."+g.fieldName(d, f), "\t")
		}
		g.p("\treturn out\n}\n\n")
	case "message":
		fs := append([]Field{}, d.Fields...)
		sort.Slice(fs, func(i, j int) bool { return fs[i].Index < fs[j].Index })
		if !g.depr {
			g.p("func vNondet_%s(d int) (v %s) {\n", d.Name, tn)
			g.p("\tif d > vMaxDepth {\n\t\treturn v\n\t}\n")
			for _, f := range fs {
				fn := g.fieldName(d, f)
				g.p("\tif vstub.Choose(0, 1) == 1 {\n\t\tv.%s = new(%s)\n", fn, g.goType(f.Type))
				g.nondet(f.Type, "(*v."+fn+")", "\t\t")
				g.p("\t}\n")
			}
			g.p("\treturn v\n}\n\n")
		}
		g.p("func vEq%s_%s(a, b %s) bool {\n\tok := true\n", g.sfx, d.Name, tn)
		for _, f := range fs {
			if f.Deprecated && !g.depr {
				continue
			}
			fn := g.fieldName(d, f)
			g.p("\tif (a.%s == nil) != (b.%s == nil) {\n\t\tok = false\n\t} else if a.%s != nil {\n", fn, fn, fn)
			g.eq(f.Type, "(*a."+fn+")", "(*b."+fn+")", "\t\t")
			g.p("\t}\n")
		}
		g.p("\treturn ok\n}\n\n")
		g.p("func vRef%s_%s(out []byte, v %s) []byte {\n\tstart := len(out)\n\tout = append(out, 0, 0, 0, 0)\n", g.sfx, d.Name, tn)
		for _, f := range fs {
			if f.Deprecated && !g.depr {
				continue
			}
			fn := g.fieldName(d, f)
			g.p("\tif v.%s != nil {\n\t\tout = append(out, %d)\n", fn, f.Index)
			g.ref(f.Type, "(*v."+fn+")", "\t\t")
			g.p("\t}\n")
		}
		g.p("\tout = append(out, 0)\n\tvstub.SetU32(out[start:], uint32(len(out)-start-4))\n\treturn out\n}\n\n")
	case "union":
		if !g.depr {
			g.p("func vNondet_%s(d int) (v %s) {\n", d.Name, tn)
			g.p("\tswitch vstub.Choose(1, %d) {\n", len(d.Branches))
			for i, b := range d.Branches {
				bn := expose(b.Def.Name, g.o.Private) // field name; the type may be namespaced
				g.p("\tcase %d:\n\t\tv.%s = new(%s)\n\t\t*v.%s = vNondet_%s(d + 1)\n", i+1, bn, g.typeName(b.Def.Name), bn, b.Def.Name)
			}
			g.p("\t}\n\treturn v\n}\n\n")
		}
		g.p("func vEq%s_%s(a, b %s) bool {\n\tok := true\n", g.sfx, d.Name, tn)
		for _, b := range d.Branches {
			bn := expose(b.Def.Name, g.o.Private)
			g.p("\tif (a.%s == nil) != (b.%s == nil) {\n\t\tok = false\n\t} else if a.%s != nil {\n\t\tok = vstub.And(ok, vEq%s_%s(*a.%s, *b.%s))\n\t}\n", bn, bn, bn, g.sfx, b.Def.Name, bn, bn)
		}
		g.p("\treturn ok\n}\n\n")
		g.p("func vRef%s_%s(out []byte, v %s) []byte {\n\tstart := len(out)\n\tout = append(out, 0, 0, 0, 0)\n", g.sfx, d.Name, tn)
		for _, b := range d.Branches {
			bn := expose(b.Def.Name, g.o.Private)
			g.p("\tif v.%s != nil {\n\t\tout = append(out, %d)\n\t\tout = vRef%s_%s(out, *v.%s)\n\t\tvstub.SetU32(out[start:], uint32(len(out)-start-5))\n\t\treturn out\n\t}\n", bn, b.Index, g.sfx, b.Def.Name, bn)
		}
		g.p("\treturn out\n}\n\n")
	}
}

// Glue returns the Go source of the glue file for a package.
func Glue(p *Pkg, o Opts, tier Tier, harness string) string {
	if p.Deep {
		tier.MaxStr = 1
	}
	g := &gen{s: p.Schema, o: o, tier: tier, longStr: p.LongStr, imported: map[string]bool{}}
	depImport := ""
	if p.ImportMode == "separate" {
		g.depPrefix = "dep."
		depImport = fmt.Sprintf("\tdep \"corp/%s/dep\"\n", p.Name)
		for _, d := range p.Schema.Defs {
			if d.Imported {
				g.imported[d.Name] = true
				for _, b := range d.Branches {
					g.imported[b.Def.Name] = true
				}
			}
		}
	}
	g.p("// Code generated by the verification corpus generator; DO NOT EDIT.\n// shape: %s\n\npackage %s\n\n", p.Shape, p.Name)
	g.p("import (\n\t\"math\"\n\t\"time\"\n\n%s\t\"vh/vstub\"\n)\n\nvar _ = math.Float32bits\nvar _ time.Time\n\n", depImport)
	g.p("var (\n\tvMaxArr   = %d\n\tvMaxStr   = %d\n\tvMaxMap   = %d\n\tvMaxDepth = %d\n)\n\nconst vThorough = %v\n\n// vShape tags assertion ids whose known failures depend on the shape of the record.\nconst vShape = %q\n\n", tier.MaxArr, tier.MaxStr, tier.MaxMap, tier.MaxDepth, tier.Name == "thorough", shapeTag(p.Schema))
	for _, d := range p.Schema.AllDefs() {
		g.defGlue(d)
	}
	// the same with deprecated message fields taking part (decode direction of C03)
	hasDepr := false
	for _, d := range p.Schema.AllDefs() {
		for _, f := range d.Fields {
			hasDepr = hasDepr || (f.Deprecated && d.Kind == "message")
		}
	}
	g.p("const vHasDepr = %v\n\n", hasDepr)
	g.depr, g.sfx = true, "D"
	for _, d := range p.Schema.AllDefs() {
		g.defGlue(d)
	}
	g.depr, g.sfx = false, ""
	src := g.sb.String()
	h := strings.ReplaceAll(harness, "REC", g.typeName("Rec"))
	if o.NoMust {
		var keep []string
		for _, l := range strings.Split(h, "\n") {
			if strings.HasSuffix(l, "//MUST") {
				continue
			}
			keep = append(keep, l)
		}
		h = strings.Join(keep, "\n")
	}
	return src + h
}

func typeHasMap(t *Type) bool {
	switch t.Kind {
	case "map":
		return true
	case "array":
		return typeHasMap(t.Elem)
	}
	return false
}

// shapeTag is "map" if any field of any definition contains a map type.
func shapeTag(s *Schema) string {
	for _, d := range s.AllDefs() {
		for _, f := range d.Fields {
			if typeHasMap(f.Type) {
				return "map"
			}
		}
	}
	return "nomap"
}
