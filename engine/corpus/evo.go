package corpus

import (
	"fmt"
	"strings"
)

// EvoPair is a pair of schema versions: V2 is what the peer sends, V1 what the
// reader was generated from.
type EvoPair struct {
	Name    string // package name of the v2 side; the v1 side is Name+"a"
	V1, V2  *Schema
	Kind    string // how V2 differs: add-int | add-two | deprecated-still-sent
	Context string // where the evolved message sits
	Shape   string
}

func evoMessage(name, kind string, v2 bool) *Def {
	// z has an index above the field that gets deprecated: whatever the older
	// reader does with a deprecated field the peer still sends must not cost it
	// z. Added fields get fresh indices above every existing one (the property's
	// precondition: a reader cannot skip an unknown field in the middle).
	d := &Def{Kind: "message", Name: name, Fields: []Field{{Name: "x", Type: prim("int32"), Index: 1}, {Name: "s", Type: prim("string"), Index: 2}, {Name: "z", Type: prim("uint16"), Index: 9}}}
	switch kind {
	case "add-int":
		if v2 {
			d.Fields = append(d.Fields, Field{Name: "y", Type: prim("int32"), Index: 10})
		}
	case "add-two":
		if v2 {
			d.Fields = append(d.Fields, Field{Name: "t", Type: prim("string"), Index: 11}, Field{Name: "u", Type: prim("uint8"), Index: 200})
		}
	case "deprecated-still-sent":
		if !v2 {
			d.Fields[1].Deprecated = true
		}
	}
	return d
}

var EvoKinds = []string{"add-int", "add-two", "deprecated-still-sent"}
var EvoContexts = []string{"top", "struct-field", "array-element", "map-value", "message-field", "union-branch", "struct-in-struct", "struct-in-array"}

func evoSchema(kind, context string, v2 bool) *Schema {
	after := Field{Name: "after", Type: prim("int32")}
	evoT := &Type{Kind: "rec", Name: "Evo"}
	switch context {
	case "top":
		return &Schema{Defs: []*Def{evoMessage("Rec", kind, v2)}}
	case "struct-field":
		return &Schema{Defs: []*Def{evoMessage("Evo", kind, v2), {Kind: "struct", Name: "Rec", Fields: []Field{{Name: "m", Type: evoT}, after}}}}
	case "array-element":
		return &Schema{Defs: []*Def{evoMessage("Evo", kind, v2), {Kind: "struct", Name: "Rec", Fields: []Field{{Name: "ms", Type: arr(evoT)}, after}}}}
	case "map-value":
		return &Schema{Defs: []*Def{evoMessage("Evo", kind, v2), {Kind: "struct", Name: "Rec", Fields: []Field{{Name: "mm", Type: mp("uint32", evoT)}, after}}}}
	case "message-field":
		a := after
		a.Index = 2
		return &Schema{Defs: []*Def{evoMessage("Evo", kind, v2), {Kind: "message", Name: "Rec", Fields: []Field{{Name: "m", Type: evoT, Index: 1}, a}}}}
	case "struct-in-struct", "struct-in-array":
		// the evolved message sits in a struct that is itself a field / an array element
		inner := &Def{Kind: "struct", Name: "Inner", Fields: []Field{{Name: "m", Type: evoT}, {Name: "a", Type: prim("int32")}}}
		it := &Type{Kind: "rec", Name: "Inner"}
		if context == "struct-in-array" {
			it = arr(it)
		}
		return &Schema{Defs: []*Def{evoMessage("Evo", kind, v2), inner, {Kind: "struct", Name: "Rec", Fields: []Field{{Name: "i", Type: it}, after}}}}
	case "union-branch":
		u := &Def{Kind: "union", Name: "Un", Branches: []Branch{{1, evoMessage("Evo", kind, v2)}, {2, &Def{Kind: "struct", Name: "Other", Fields: []Field{{Name: "q", Type: prim("int32")}}}}}}
		return &Schema{Defs: []*Def{u, {Kind: "struct", Name: "Rec", Fields: []Field{{Name: "u", Type: &Type{Kind: "rec", Name: "Un"}}, after}}}}
	}
	panic("context")
}

// EvoPairs enumerates the schema evolution corpus.
func EvoPairs() []*EvoPair {
	var out []*EvoPair
	for _, k := range EvoKinds {
		for _, c := range EvoContexts {
			p := &EvoPair{Kind: k, Context: c, V1: evoSchema(k, c, false), V2: evoSchema(k, c, true)}
			p.Name = fmt.Sprintf("e%02d", len(out))
			p.Shape = k + " / evolved message as " + c
			out = append(out, p)
		}
	}
	return out
}

// EvoGlue returns the glue of the v2 package: the usual value constructor for
// the v2 types plus equality of a v1 value with a v2 value restricted to the
// fields v1 knows, and the C04 harness.
func EvoGlue(p *EvoPair, tier Tier) string {
	pk := &Pkg{Name: p.Name, Schema: p.V2, Shape: p.Shape}
	src := Glue(pk, Opts{}, tier, "")
	src = strings.Replace(src, "\t\"vh/vstub\"\n", "\t\"vh/vstub\"\n\n\tv1 \"corp/"+p.Name+"a\"\n", 1)
	g := &gen{s: p.V1, tier: tier, cross: true}
	for _, d := range p.V1.AllDefs() {
		g.crossEq(d)
	}
	return src + g.sb.String() + evoHarness
}

const evoHarness = `
// VH_C04: a record encoded under the newer schema decodes under the older one
// to the same value restricted to the fields the older schema knows, with
// both decoders, and everything after the evolved message is intact.
func VH_C04() {
	v := vNondet_Rec(0)
	buf := v.MarshalBebop()
	var w1 v1.Rec
	err := w1.UnmarshalBebop(buf)
	vstub.Assert("c04.unmarshal.err", err == nil)
	vstub.Assert("c04.unmarshal.eq", xEq_Rec(w1, v))
	vC04Stream(v, buf, 0)
}

// the underlying reader may deliver short reads: everything at once (mode 0),
// one byte at a time (1), or one short read anywhere (2)
func VH_C04B() { v := vNondet_Rec(0); vC04Stream(v, v.MarshalBebop(), 1) }
func VH_C04C() { v := vNondet_Rec(0); vC04Stream(v, v.MarshalBebop(), 2) }

// VH_C06X: a strict prefix of a newer writer's encoding is an error for the
// older reader too (C06 with the unknown fields of C04 on the wire).
func VH_C06X() {
	v := vNondet_Rec(0)
	enc := v.MarshalBebop()
	if len(enc) == 0 {
		return
	}
	k := vstub.Choose(0, len(enc)-1)
	vstub.SetLoopBudget(8*len(enc) + 64)
	var w v1.Rec
	if vstub.Choose(0, 1) == 0 {
		cut := make([]byte, k)
		copy(cut, enc[:k])
		err := w.UnmarshalBebop(cut)
		vstub.Assert("c06.newer.bytes.err", err != nil)
	} else {
		fr := vstub.NewFragReader(enc[:k])
		fr.Full = true
		err := w.DecodeBebop(fr)
		vstub.Assert("c06.newer.stream.err", err != nil)
	}
	vstub.Reach("c06x")
}

// VH_C08X: a reader that fails inside a newer writer's encoding is reported
// by the older reader (C08 with the unknown fields of C04 on the wire).
func VH_C08X() {
	v := vNondet_Rec(0)
	enc := v.MarshalBebop()
	if len(enc) == 0 {
		return
	}
	fr := vstub.NewFragReader(enc)
	fr.Full = true
	fr.FailAt = vstub.Choose(0, len(enc)-1)
	fr.Err = vstub.ErrFault
	fr.EarlyErr = vstub.Choose(0, 1) == 1
	vstub.SetLoopBudget(8*len(enc) + 64)
	var w v1.Rec
	err := w.DecodeBebop(fr)
	vstub.Assert("c08.newer.r.err", err != nil)
	vstub.Reach("c08x")
}

func vC04Stream(v Rec, buf []byte, mode int) {
	var w2 v1.Rec
	fr := vstub.NewFragReader(buf)
	switch mode {
	case 0:
		fr.Full = true
	case 1:
		fr.OneByte = true
	default:
		fr.Budget = 1
	}
	err := w2.DecodeBebop(fr)
	vstub.Assert("c04.decode.err", err == nil)
	vstub.Assert("c04.decode.eq", xEq_Rec(w2, v))
	vstub.Assert("c04.decode.pos", fr.Pos == len(buf))
	vstub.Reach("c04")
}
`

func (g *gen) crossEq(d *Def) {
	tn := g.typeName(d.Name)
	switch d.Kind {
	case "struct":
		g.p("func xEq_%s(a v1.%s, b %s) bool {\n\tok := true\n", d.Name, tn, tn)
		for _, f := range d.Fields {
			g.eq(f.Type, "a."+g.fieldName(d, f), "b."+g.fieldName(d, f), "\t")
		}
		g.p("\treturn ok\n}\n\n")
	case "message":
		g.p("func xEq_%s(a v1.%s, b %s) bool {\n\tok := true\n", d.Name, tn, tn)
		for _, f := range d.Fields {
			if f.Deprecated {
				continue
			}
			fn := g.fieldName(d, f)
			g.p("\tif (a.%s == nil) != (b.%s == nil) {\n\t\tok = false\n\t} else if a.%s != nil {\n", fn, fn, fn)
			g.eq(f.Type, "(*a."+fn+")", "(*b."+fn+")", "\t\t")
			g.p("\t}\n")
		}
		g.p("\treturn ok\n}\n\n")
	case "union":
		g.p("func xEq_%s(a v1.%s, b %s) bool {\n\tok := true\n", d.Name, tn, tn)
		for _, b := range d.Branches {
			bn := g.typeName(b.Def.Name)
			g.p("\tif (a.%s == nil) != (b.%s == nil) {\n\t\tok = false\n\t} else if a.%s != nil {\n\t\tok = vstub.And(ok, xEq_%s(*a.%s, *b.%s))\n\t}\n", bn, bn, bn, b.Def.Name, bn, bn)
		}
		g.p("\treturn ok\n}\n\n")
	}
}
