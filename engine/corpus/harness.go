package corpus

// HarnessSrc is appended to every glue file; REC is replaced by the Go name
// of the record under test. Lines marked //MUST are dropped when the
// generator options do not produce MustUnmarshalBebop.
const HarnessSrc = `
// ---------- harnesses ----------

func vEncode(v *REC, mode int) []byte {
	switch mode {
	case 0:
		return v.MarshalBebop()
	case 1:
		// into a buffer that held something else before (a recycled buffer)
		buf := vstub.NondetBytes(v.Size())
		v.MarshalBebopTo(buf)
		return buf
	}
	sink := &vstub.Sink{}
	err := v.EncodeBebop(sink)
	vstub.Assert("enc.stream.err", err == nil)
	return sink.Data
}

// vC01Dec decodes buf with decoder dec and asserts the value comes back.
func vC01Dec(id string, v REC, buf []byte, dec int) {
	var w REC
	switch dec {
	case 0:
		err := w.UnmarshalBebop(buf)
		vstub.Assert(id+".err", err == nil)
	case 1:
		w.MustUnmarshalBebop(buf) //MUST
	case 2:
		fr := vstub.NewFragReader(buf)
		fr.Full = true
		err := w.DecodeBebop(fr)
		vstub.Assert(id+".err", err == nil)
		vstub.Assert(id+".pos", fr.Pos == len(buf))
	}
	vstub.Assert(id+".eq", vEq_Rec(v, w))
}

// VH_C01: encode then decode returns the value, for the encoder/decoder
// pairings (quick: the five pairings that involve MarshalBebop or
// UnmarshalBebop; thorough: all nine), all on the same symbolic value.
func VH_C01() {
	v := vNondet_Rec(0)
	b0 := vEncode(&v, 0)
	vC01Dec("c01.marshal.unmarshal", v, b0, 0)
	vC01Dec("c01.marshal.must", v, b0, 1) //MUST
	vC01Dec("c01.marshal.decode", v, b0, 2)
	b1 := vEncode(&v, 1)
	vC01Dec("c01.marshalto.unmarshal", v, b1, 0)
	b2 := vEncode(&v, 2)
	vC01Dec("c01.encode.unmarshal", v, b2, 0)
	if vThorough {
		vC01Dec("c01.marshalto.must", v, b1, 1) //MUST
		vC01Dec("c01.marshalto.decode", v, b1, 2)
		vC01Dec("c01.encode.must", v, b2, 1) //MUST
		vC01Dec("c01.encode.decode", v, b2, 2)
	}
	vstub.Reach("c01")
}

// VH_C02: the three encoders agree, Size() is exact, MarshalBebopTo returns it
// and stays inside the first Size() bytes whatever the buffer held before.
func VH_C02() {
	v := vNondet_Rec(0)
	n := v.Size()
	a := v.MarshalBebop()
	vstub.Assert("c02.marshal.len", len(a) == n)
	buf := vstub.NondetBytes(n + 2)
	g0, g1 := buf[n], buf[n+1]
	ret := v.MarshalBebopTo(buf)
	vstub.Assert("c02.to.ret", ret == n)
	vstub.Assert("c02.to.bytes", vstub.BytesEq(buf[:n], a))
	vstub.Assert("c02.to.nospill", vstub.And(buf[n] == g0, buf[n+1] == g1))
	exact := vstub.NondetBytes(n)
	ret2 := v.MarshalBebopTo(exact[:n:n])
	vstub.Assert("c02.exact.ret", ret2 == n)
	vstub.Assert("c02.exact.bytes", vstub.BytesEq(exact, a))
	sink := &vstub.Sink{}
	err := v.EncodeBebop(sink)
	vstub.Assert("c02.stream.err", err == nil)
	vstub.Assert("c02.stream.bytes", vstub.BytesEq(sink.Data, a))
	vstub.Reach("c02")
}

// VH_C03: the encoders emit the reference encoding; the decoders accept every
// reference encoding (any map entry order) and yield the value.
func VH_C03() {
	v := vNondet_Rec(0)
	ref := vRef_Rec(nil, v)
	vstub.Assert("c03.enc.marshal", vstub.BytesEq(v.MarshalBebop(), ref))
	sink := &vstub.Sink{}
	err := v.EncodeBebop(sink)
	vstub.Assert("c03.enc.stream.err", err == nil)
	vstub.Assert("c03.enc.stream", vstub.BytesEq(sink.Data, ref))
	// decode direction: every entry order the reference encoder can produce
	vstub.PermuteRanges(true)
	ref2 := vRef_Rec(nil, v)
	vstub.PermuteRanges(false)
	var w1 REC
	err = w1.UnmarshalBebop(ref2)
	vstub.Assert("c03.dec.unmarshal.err", err == nil)
	vstub.Assert("c03.dec.unmarshal.eq", vEq_Rec(v, w1))
	var w2 REC
	fr := vstub.NewFragReader(ref2)
	fr.Full = true
	err = w2.DecodeBebop(fr)
	vstub.Assert("c03.dec.decode.err", err == nil)
	vstub.Assert("c03.dec.decode.eq", vEq_Rec(v, w2))
	vstub.Assert("c03.dec.decode.pos", fr.Pos == len(ref2))
	var w3 REC //MUST
	w3.MustUnmarshalBebop(ref2) //MUST
	vstub.Assert("c03.dec.must.eq", vEq_Rec(v, w3)) //MUST
	if vHasDepr {
		// an older writer still sends the fields this schema has deprecated: a
		// conformant encoding, which every decoder reads completely
		old := vRefD_Rec(nil, v)
		var d1 REC
		err = d1.UnmarshalBebop(old)
		vstub.Assert("c03.depr.unmarshal.err", err == nil)
		vstub.Assert("c03.depr.unmarshal.eq", vEqD_Rec(v, d1))
		var d2 REC
		fd := vstub.NewFragReader(old)
		fd.Full = true
		err = d2.DecodeBebop(fd)
		vstub.Assert("c03.depr.decode.err", err == nil)
		vstub.Assert("c03.depr.decode.eq", vEqD_Rec(v, d2))
		vstub.Assert("c03.depr.decode.pos", fd.Pos == len(old))
		var d3 REC //MUST
		d3.MustUnmarshalBebop(old) //MUST
		vstub.Assert("c03.depr.must.eq", vEqD_Rec(v, d3)) //MUST
	}
	vstub.Reach("c03")
}

// VH_C05: DecodeBebop consumes exactly one record under read fragmentation.
func VH_C05() {
	v := vNondet_Rec(0)
	enc := v.MarshalBebop()
	n := len(enc)
	stream := append(append([]byte{}, enc...), enc...)
	fr := vstub.NewFragReader(stream)
	if vstub.Choose(0, 1) == 0 {
		fr.OneByte = true
	} else {
		fr.Budget = 1
		if vThorough {
			fr.Budget = 2
		}
	}
	var w1 REC
	err := w1.DecodeBebop(fr)
	vstub.Assert("c05.first.err", err == nil)
	vstub.Assert("c05.first.pos", fr.Pos == n)
	vstub.Assert("c05.first.size", w1.Size() == n)
	vstub.Assert("c05.first.eq", vEq_Rec(v, w1))
	fr.Full, fr.OneByte = true, false
	var w2 REC
	err = w2.DecodeBebop(fr)
	vstub.Assert("c05.second.err", err == nil)
	vstub.Assert("c05.second.pos", fr.Pos == 2*n)
	vstub.Assert("c05.second.eq", vEq_Rec(v, w2))
	vstub.Reach("c05")
}

// VH_C06: every strict prefix of a valid encoding is rejected with an error.
func VH_C06() {
	v := vNondet_Rec(0)
	enc := v.MarshalBebop()
	if len(enc) == 0 {
		vstub.Reach("c06.empty")
		return
	}
	k := vstub.Choose(0, len(enc)-1)
	vstub.SetLoopBudget(8*len(enc) + 64)
	var w REC
	if vstub.Choose(0, 1) == 0 {
		cut := make([]byte, k)
		copy(cut, enc[:k])
		err := w.UnmarshalBebop(cut)
		vstub.Assert("c06.bytes.err", err != nil)
	} else {
		fr := vstub.NewFragReader(enc[:k])
		fr.Full = true
		err := w.DecodeBebop(fr)
		vstub.Assert("c06.stream.err", err != nil)
	}
	vstub.Reach("c06")
}

const vMaxL = 6

// VH_C07: arbitrary input bytes never make a decoder panic, loop or allocate
// out of proportion.
func VH_C07() {
	l := vstub.Choose(0, vMaxL)
	b := vstub.NondetBytes(l)
	vstub.SetLoopBudget(8*l + 64)
	vstub.SetEnumBound(l + 2)
	var w REC
	if vstub.Choose(0, 1) == 0 {
		_ = w.UnmarshalBebop(b)
	} else {
		fr := vstub.NewFragReader(b)
		fr.Full = true
		_ = w.DecodeBebop(fr)
		// work in proportion to the input: the decoder may not keep polling an
		// exhausted stream (natively observable form of the loop budget)
		vstub.Assert("c07.proportion."+vShape, fr.Calls <= 8*l+64)
	}
	vstub.Reach("c07")
}

// VH_C07W: a valid encoding with a window of 1-2 arbitrary bytes at any offset.
func VH_C07W() {
	if !vThorough {
		// quick tier: short valid encodings (containers of at most one element)
		vMaxArr, vMaxStr, vMaxMap, vMaxDepth = 1, 1, 1, 1
	}
	v := vNondet_Rec(0)
	enc := v.MarshalBebop()
	if len(enc) == 0 {
		vstub.Reach("c07w")
		return
	}
	off := vstub.Choose(0, len(enc)-1)
	enc[off] = vstub.NondetU8()
	if vThorough && off+1 < len(enc) && vstub.Choose(0, 1) == 1 {
		enc[off+1] = vstub.NondetU8()
	}
	vstub.SetLoopBudget(8*len(enc) + 64)
	vstub.SetEnumBound(len(enc) + 2)
	var w REC
	if vstub.Choose(0, 1) == 0 {
		_ = w.UnmarshalBebop(enc)
	} else {
		fr := vstub.NewFragReader(enc)
		fr.Full = true
		_ = w.DecodeBebop(fr)
		vstub.Assert("c07.proportion."+vShape, fr.Calls <= 8*len(enc)+64)
	}
	vstub.Reach("c07w")
}

// VH_C08W: a failing writer always surfaces as an error; a nil error means
// exactly the bytes of MarshalBebop were written.
func VH_C08W() {
	v := vNondet_Rec(0)
	ref := v.MarshalBebop()
	probe := &vstub.Sink{}
	_ = v.EncodeBebop(probe)
	if probe.Calls == 0 {
		vstub.Reach("c08w.nowrites")
		return
	}
	fw := &vstub.FaultWriter{FailCall: vstub.Choose(0, probe.Calls-1), Err: vstub.ErrFault, Recover: vstub.Choose(0, 1) == 1}
	if vThorough || fw.FailCall == 0 {
		// error value and short count are varied at every call in the thorough
		// tier, at the first call in the quick tier
		fw.Err = vstub.NondetErr()
		fw.Short = vstub.Choose(0, 1)
	}
	err := v.EncodeBebop(fw)
	vstub.Assert("c08.w.err", err != nil)
	if err == nil {
		vstub.Assert("c08.w.nil.bytes", vstub.BytesEq(fw.Data, ref))
	}
	vstub.Reach("c08w")
}

// VH_C08R: a failing reader always surfaces as an error.
func VH_C08R() {
	v := vNondet_Rec(0)
	enc := v.MarshalBebop()
	if len(enc) == 0 {
		vstub.Reach("c08r.empty")
		return
	}
	fr := vstub.NewFragReader(enc)
	fr.Full = true
	fr.FailAt = vstub.Choose(0, len(enc)-1)
	fr.Err = vstub.ErrFault
	if vThorough || fr.FailAt == 0 || fr.FailAt == len(enc)-1 {
		fr.Err = vstub.NondetErr()
	}
	fr.EarlyErr = vstub.Choose(0, 1) == 1
	// the reader may also offer ReadByte (as bufio.Reader, bytes.Reader and
	// bytes.Buffer do): code that looks for io.ByteReader takes another path
	// (quick tier: for failures in the last four bytes - a failure that is
	// swallowed earlier is met again by the next read of this persistent fault)
	var rd interface{ Read(p []byte) (int, error) } = fr
	if (vThorough || fr.FailAt >= len(enc)-4) && vstub.Choose(0, 1) == 1 {
		rd = vstub.ByteFragReader{FragReader: fr}
	}
	vstub.SetLoopBudget(8*len(enc) + 64)
	var w REC
	err := w.DecodeBebop(rd)
	vstub.Assert("c08.r.err", err != nil)
	vstub.Reach("c08r")
}
`
