package interp

import (
	"fmt"
	"go/types"
	"strings"

	"golang.org/x/tools/go/ssa"

	"gosym/term"
)

// Value is one of:
//
//	*term.Term  bool / integer / float bit pattern
//	StrV        string
//	PtrV        pointer (incl. unsafe.Pointer)
//	SliceV      slice
//	*StructV    struct (value semantics: copied on load/store)
//	*ArrayV     array  (value semantics)
//	*MapObj     map (reference; nil = nil map)
//	IfaceV      interface value
//	FuncV       function value
//	TupleV      multiple results
//	*IterV      range iterator
//	TimeV       abstract time.Time
type Value interface{}

type StrV struct{ B []*term.Term }

type Object struct {
	ID   int
	Root Value
	Typ  types.Type
	Base bool // created before the path started (undo-logged)
	Site string
}

type PtrV struct {
	Obj  *Object
	Path []int
	As   types.Type // non-nil: unsafe reinterpretation of the cell(s) at Path
	Fn   *ssa.Function
	// SymIdx != nil: the last element of Path is symbolic (an index into an
	// array of scalars, already checked to be in range); only loads go through it
	SymIdx  *term.Term
	SymType types.Type
	SymLen  int
}

func (p PtrV) IsNil() bool { return p.Obj == nil }

type SliceV struct {
	Obj  *Object // Root (after Base path) is *ArrayV
	Base []int
	Off  int
	Len  int
	Cap  int
}

func (s SliceV) IsNil() bool { return s.Obj == nil }

type StructV struct{ F []Value }
type ArrayV struct{ E []Value }

type mapEntry struct {
	K, V Value
}

type MapObj struct {
	ID      int
	Entries []*mapEntry
	Base    bool
	Typ     *types.Map
}

type IfaceV struct {
	T types.Type
	V Value
}

func (i IfaceV) IsNil() bool { return i.T == nil }

type FuncV struct {
	Fn       *ssa.Function
	Bindings []Value
	Builtin  *ssa.Builtin
	// bound method closure
	Recv Value
}

func (f FuncV) IsNil() bool { return f.Fn == nil && f.Builtin == nil }

type TupleV []Value

type IterV struct {
	Map     *MapObj
	Entries []*mapEntry
	Str     StrV
	IsStr   bool
	Pos     int
}

// TimeV is the abstract model of time.Time: the zero time or time.Unix(0, NS).
type TimeV struct {
	Zero bool
	NS   *term.Term
}

func isTimeType(t types.Type) bool {
	n, ok := t.(*types.Named)
	if !ok {
		return false
	}
	o := n.Obj()
	return o.Pkg() != nil && o.Pkg().Path() == "time" && o.Name() == "Time"
}

var sizes = types.SizesFor("gc", "amd64")

// scalarWidth returns (width, signed, ok) for basic scalar types; width 0 = bool.
func scalarWidth(t types.Type) (int, bool, bool) {
	b, ok := t.Underlying().(*types.Basic)
	if !ok {
		return 0, false, false
	}
	switch b.Kind() {
	case types.Bool, types.UntypedBool:
		return 0, false, true
	case types.Int8:
		return 8, true, true
	case types.Int16:
		return 16, true, true
	case types.Int32, types.UntypedRune:
		return 32, true, true
	case types.Int64, types.Int, types.UntypedInt:
		return 64, true, true
	case types.Uint8:
		return 8, false, true
	case types.Uint16:
		return 16, false, true
	case types.Uint32:
		return 32, false, true
	case types.Uint64, types.Uint, types.Uintptr:
		return 64, false, true
	case types.Float32:
		return 32, false, true
	case types.Float64, types.UntypedFloat:
		return 64, false, true
	}
	return 0, false, false
}

func isFloat(t types.Type) bool {
	b, ok := t.Underlying().(*types.Basic)
	return ok && b.Info()&types.IsFloat != 0
}

func isString(t types.Type) bool {
	b, ok := t.Underlying().(*types.Basic)
	return ok && b.Info()&types.IsString != 0
}

func zero(t types.Type) Value {
	if isTimeType(t) {
		return TimeV{Zero: true, NS: term.Const(64, 0)}
	}
	switch u := t.Underlying().(type) {
	case *types.Basic:
		if u.Kind() == types.UnsafePointer {
			return PtrV{}
		}
		if u.Info()&types.IsString != 0 {
			return StrV{}
		}
		if u.Kind() == types.UntypedNil {
			return PtrV{}
		}
		w, _, ok := scalarWidth(u)
		if !ok {
			panic(fmt.Sprintf("zero: unsupported basic type %v", t))
		}
		if w == 0 {
			return term.False
		}
		return term.Const(w, 0)
	case *types.Pointer:
		return PtrV{}
	case *types.Slice:
		return SliceV{}
	case *types.Map:
		return (*MapObj)(nil)
	case *types.Chan:
		return PtrV{}
	case *types.Signature:
		return FuncV{}
	case *types.Interface:
		return IfaceV{}
	case *types.Struct:
		s := &StructV{F: make([]Value, u.NumFields())}
		for i := range s.F {
			s.F[i] = zero(u.Field(i).Type())
		}
		return s
	case *types.Array:
		n := int(u.Len())
		a := &ArrayV{E: make([]Value, n)}
		if n > 0 {
			z := zero(u.Elem())
			a.E[0] = z
			for i := 1; i < n; i++ {
				a.E[i] = copyVal(z)
			}
		}
		return a
	case *types.Tuple:
		tv := make(TupleV, u.Len())
		for i := range tv {
			tv[i] = zero(u.At(i).Type())
		}
		return tv
	}
	panic(fmt.Sprintf("zero: unsupported type %v (%T)", t, t.Underlying()))
}

func copyVal(v Value) Value {
	switch x := v.(type) {
	case *StructV:
		n := &StructV{F: make([]Value, len(x.F))}
		for i, f := range x.F {
			n.F[i] = copyVal(f)
		}
		return n
	case *ArrayV:
		n := &ArrayV{E: make([]Value, len(x.E))}
		for i, f := range x.E {
			n.E[i] = copyVal(f)
		}
		return n
	}
	return v
}

func child(n Value, i int) Value {
	switch x := n.(type) {
	case *StructV:
		return x.F[i]
	case *ArrayV:
		if i < 0 || i >= len(x.E) {
			panic(internalf("child: array index %d out of %d", i, len(x.E)))
		}
		return x.E[i]
	}
	panic(internalf("child: cannot index %T", n))
}

func setChild(n Value, i int, v Value) {
	switch x := n.(type) {
	case *StructV:
		x.F[i] = v
	case *ArrayV:
		x.E[i] = v
	default:
		panic(internalf("setChild: cannot index %T", n))
	}
}

func samePath(a, b []int) bool {
	if len(a) != len(b) {
		return false
	}
	for i := range a {
		if a[i] != b[i] {
			return false
		}
	}
	return true
}

func extPath(p []int, i ...int) []int {
	n := make([]int, len(p)+len(i))
	copy(n, p)
	copy(n[len(p):], i)
	return n
}

func strConst(s string) StrV {
	b := make([]*term.Term, len(s))
	for i := 0; i < len(s); i++ {
		b[i] = term.Const(8, uint64(s[i]))
	}
	return StrV{B: b}
}

// concreteString returns the Go string if all bytes are constants.
func (s StrV) concrete() (string, bool) {
	var sb strings.Builder
	for _, b := range s.B {
		if !b.IsConst() {
			return "", false
		}
		sb.WriteByte(byte(b.Val))
	}
	return sb.String(), true
}

// display renders a string for diagnostics (symbolic bytes as '?').
func (s StrV) display() string {
	var sb strings.Builder
	for _, b := range s.B {
		if b.IsConst() {
			sb.WriteByte(byte(b.Val))
		} else {
			sb.WriteByte('?')
		}
	}
	return sb.String()
}

type internalErr struct{ msg string }

func internalf(f string, a ...interface{}) internalErr {
	return internalErr{fmt.Sprintf(f, a...)}
}
