package interp

import (
	"fmt"
	"go/types"
	"math"
	"strconv"
	"strings"

	"golang.org/x/tools/go/ssa"

	"gosym/term"
)

func f32bits(f float32) uint32 { return math.Float32bits(f) }
func f64bits(f float64) uint64 { return math.Float64bits(f) }
func f32from(b uint32) float32 { return math.Float32frombits(b) }
func f64from(b uint64) float64 { return math.Float64frombits(b) }
func i64c(v int64) *term.Term  { return term.Const(64, uint64(v)) }
func intOf(v Value) (int, bool) {
	t, ok := v.(*term.Term)
	if !ok || !t.IsConst() {
		return 0, false
	}
	return int(t.SignedVal()), true
}

type intrinsicFn func(e *Engine, fn *ssa.Function, args []Value) Value

func (e *Engine) callBuiltin(b *ssa.Builtin, args []Value, call *ssa.Call) Value {
	switch b.Name() {
	case "len":
		switch x := args[0].(type) {
		case StrV:
			return i64c(int64(len(x.B)))
		case SliceV:
			return i64c(int64(x.Len))
		case *MapObj:
			if x == nil {
				return i64c(0)
			}
			return i64c(int64(len(x.Entries)))
		case PtrV: // *array
			if x.IsNil() {
				return i64c(0)
			}
			return i64c(int64(len(e.walk(x.Obj, x.Path).(*ArrayV).E)))
		case *ArrayV:
			return i64c(int64(len(x.E)))
		}
	case "cap":
		switch x := args[0].(type) {
		case SliceV:
			return i64c(int64(x.Cap))
		case *ArrayV:
			return i64c(int64(len(x.E)))
		case PtrV:
			return i64c(int64(len(e.walk(x.Obj, x.Path).(*ArrayV).E)))
		}
	case "append":
		return e.appendOp(args[0].(SliceV), args[1], call)
	case "copy":
		return e.copyOp(args[0].(SliceV), args[1])
	case "delete":
		e.mapDelete(args[0].(*MapObj), args[1])
		return nil
	case "print", "println":
		return nil
	case "recover":
		return IfaceV{}
	case "ssa:wrapnilchk":
		if p, ok := args[0].(PtrV); ok && p.IsNil() {
			panic(pathEnd{kind: endPanic, msg: "nil pointer dereference (value method on nil pointer)", site: e.where()})
		}
		return args[0]
	case "min", "max":
		return e.minMax(b.Name() == "min", args, call)
	case "clear":
		switch x := args[0].(type) {
		case *MapObj:
			if x != nil {
				e.mapLog(x)
				x.Entries = nil
			}
			return nil
		}
	case "String": // unsafe.String(ptr, len)
		p := args[0].(PtrV)
		n, ok := intOf(args[1])
		if !ok {
			break
		}
		if n == 0 {
			return StrV{}
		}
		arr := e.walk(p.Obj, p.Path[:len(p.Path)-1]).(*ArrayV)
		off := p.Path[len(p.Path)-1]
		out := make([]*term.Term, n)
		for i := 0; i < n; i++ {
			out[i] = arr.E[off+i].(*term.Term)
		}
		return StrV{B: out}
	case "SliceData":
		s := args[0].(SliceV)
		if s.IsNil() {
			return PtrV{}
		}
		if s.Cap == 0 {
			// pointer to a zero-length tail: represent as pointer past the end is unsupported; use a fresh cell
			o := e.newArrayObj(types.Typ[types.Uint8], 1, "")
			return PtrV{Obj: o, Path: []int{0}}
		}
		return PtrV{Obj: s.Obj, Path: extPath(s.Base, s.Off)}
	case "StringData":
		s := args[0].(StrV)
		o := e.newArrayObj(types.Typ[types.Uint8], len(s.B)+1, "")
		arr := o.Root.(*ArrayV)
		for i, b := range s.B {
			arr.E[i] = b
		}
		return PtrV{Obj: o, Path: []int{0}}
	case "Slice": // unsafe.Slice(ptr, len)
		p := args[0].(PtrV)
		n, ok := intOf(args[1])
		if !ok {
			break
		}
		if p.IsNil() {
			return SliceV{}
		}
		off := p.Path[len(p.Path)-1]
		return SliceV{Obj: p.Obj, Base: p.Path[:len(p.Path)-1], Off: off, Len: n, Cap: n}
	}
	panic(pathEnd{kind: endInconclusive, msg: "builtin:" + b.Name() + fmt.Sprintf("(%T)", args[0]), site: e.where()})
}

func (e *Engine) minMax(isMin bool, args []Value, call *ssa.Call) Value {
	t := call.Type()
	_, signed, _ := scalarWidth(t)
	if isFloat(t) || isString(t) {
		panic(pathEnd{kind: endInconclusive, msg: "min/max on non-integers", site: e.where()})
	}
	r := args[0].(*term.Term)
	for _, a := range args[1:] {
		x := a.(*term.Term)
		var lt *term.Term
		if signed {
			lt = term.Cmp(term.OpSlt, x, r)
		} else {
			lt = term.Cmp(term.OpUlt, x, r)
		}
		if isMin {
			r = term.Ite(lt, x, r)
		} else {
			r = term.Ite(lt, r, x)
		}
	}
	return r
}

func (e *Engine) appendOp(s SliceV, more Value, call *ssa.Call) Value {
	var add []Value
	switch m := more.(type) {
	case SliceV:
		if m.Len > 0 {
			arr := e.walk(m.Obj, m.Base).(*ArrayV)
			for i := 0; i < m.Len; i++ {
				add = append(add, copyVal(arr.E[m.Off+i]))
			}
		}
	case StrV:
		for _, b := range m.B {
			add = append(add, b)
		}
	default:
		panic(internalf("append of %T", more))
	}
	if len(add) == 0 {
		return s
	}
	newLen := s.Len + len(add)
	if !s.IsNil() && newLen <= s.Cap {
		for i, v := range add {
			e.setLoc(s.Obj, extPath(s.Base, s.Off+s.Len+i), v)
		}
		return SliceV{Obj: s.Obj, Base: s.Base, Off: s.Off, Len: newLen, Cap: s.Cap}
	}
	ncap := 2 * s.Cap
	if ncap < newLen {
		ncap = newLen
	}
	var elem types.Type
	if call != nil {
		elem = call.Type().Underlying().(*types.Slice).Elem()
	} else if !s.IsNil() {
		elem = s.Obj.Typ.Underlying().(*types.Array).Elem()
	} else {
		panic(internalf("append: unknown element type"))
	}
	if sz := sizes.Sizeof(elem); sz > 0 && int64(ncap)*sz > e.allocLim*4 && !e.inBase {
		e.recordViolation("alloc", "allocation out of proportion", e.where(), fmt.Sprintf("append grows to %d elements", ncap))
		panic(pathEnd{kind: endAbandon})
	}
	o := e.newArrayObj(elem, ncap, "")
	arr := o.Root.(*ArrayV)
	if s.Len > 0 {
		old := e.walk(s.Obj, s.Base).(*ArrayV)
		for i := 0; i < s.Len; i++ {
			arr.E[i] = copyVal(old.E[s.Off+i])
		}
	}
	for i, v := range add {
		arr.E[s.Len+i] = v
	}
	return SliceV{Obj: o, Len: newLen, Cap: ncap}
}

func (e *Engine) copyOp(dst SliceV, src Value) Value {
	var vals []Value
	switch m := src.(type) {
	case SliceV:
		if m.Len > 0 {
			arr := e.walk(m.Obj, m.Base).(*ArrayV)
			for i := 0; i < m.Len; i++ {
				vals = append(vals, arr.E[m.Off+i])
			}
		}
	case StrV:
		for _, b := range m.B {
			vals = append(vals, b)
		}
	default:
		panic(internalf("copy from %T", src))
	}
	n := len(vals)
	if dst.Len < n {
		n = dst.Len
	}
	for i := 0; i < n; i++ {
		e.setLoc(dst.Obj, extPath(dst.Base, dst.Off+i), copyVal(vals[i]))
	}
	return i64c(int64(n))
}

// ---------- runes ----------

func (e *Engine) pkgFunc(pkg, name string) *ssa.Function {
	p := e.Prog.ImportedPackage(pkg)
	if p == nil {
		panic(pathEnd{kind: endInconclusive, msg: "package not loaded: " + pkg, site: e.where()})
	}
	f := p.Func(name)
	if f == nil {
		panic(internalf("no function %s.%s", pkg, name))
	}
	return f
}

func (e *Engine) decodeRune(s StrV) (*term.Term, int) {
	if len(s.B) > 0 && s.B[0].IsConst() && s.B[0].Val < 0x80 {
		return term.Const(32, s.B[0].Val), 1
	}
	r := e.callFunction(e.pkgFunc("unicode/utf8", "DecodeRuneInString"), []Value{s}).(TupleV)
	size := e.concretize(r[1].(*term.Term), true, "rune-size")
	return r[0].(*term.Term), int(size)
}

func (e *Engine) runeToString(x *term.Term, from types.Type) Value {
	_, signed, _ := scalarWidth(from)
	r := term.Resize(x, 32, signed)
	if x.W > 32 {
		// values that do not fit a rune become U+FFFD
		fits := term.Eq(term.Resize(r, x.W, true), x)
		if !e.branch(fits) {
			return strConst("�")
		}
	}
	if r.IsConst() {
		return strConst(string(rune(int32(r.Val))))
	}
	out := e.callFunction(e.pkgFunc("unicode/utf8", "AppendRune"), []Value{SliceV{}, r}).(SliceV)
	return StrV{B: e.sliceBytes(out)}
}

func (e *Engine) stringToRunes(s StrV, elem types.Type) Value {
	var rs []*term.Term
	rest := s
	for len(rest.B) > 0 {
		r, n := e.decodeRune(rest)
		rs = append(rs, r)
		rest = StrV{B: rest.B[n:]}
	}
	o := e.newArrayObj(elem, len(rs), "")
	arr := o.Root.(*ArrayV)
	for i, r := range rs {
		arr.E[i] = r
	}
	return SliceV{Obj: o, Len: len(rs), Cap: len(rs)}
}

func (e *Engine) runesToString(s SliceV) Value {
	var out []*term.Term
	if s.Len > 0 {
		arr := e.walk(s.Obj, s.Base).(*ArrayV)
		for i := 0; i < s.Len; i++ {
			r := arr.E[s.Off+i].(*term.Term)
			str := e.runeToString(r, types.Typ[types.Int32]).(StrV)
			out = append(out, str.B...)
		}
	}
	return StrV{B: out}
}

// ---------- intrinsics ----------

func (e *Engine) registerIntrinsics() {
	ident := func(e *Engine, fn *ssa.Function, a []Value) Value { return a[0] }
	in := e.intrinsic
	in["math.Float32bits"] = ident
	in["math.Float32frombits"] = ident
	in["math.Float64bits"] = ident
	in["math.Float64frombits"] = ident
	in["internal/abi.NoEscape"] = ident
	in["internal/abi.Escape"] = ident

	// time.Time abstract model
	in["time.Unix"] = func(e *Engine, fn *ssa.Function, a []Value) Value {
		sec := a[0].(*term.Term)
		if !sec.IsConst() || sec.Val != 0 {
			panic(pathEnd{kind: endInconclusive, msg: "time.Unix with non-zero seconds", site: e.where()})
		}
		return TimeV{Zero: false, NS: a[1].(*term.Term)}
	}
	in["(time.Time).UTC"] = ident
	in["(time.Time).IsZero"] = func(e *Engine, fn *ssa.Function, a []Value) Value {
		return term.Bool(a[0].(TimeV).Zero)
	}
	// Unix() and Nanosecond() of time.Unix(0, n): floor division and modulus by 10^9
	floorDivMod := func(n *term.Term) (*term.Term, *term.Term) {
		g := term.Const(64, 1000000000)
		q, r := term.Bin(term.OpBvSdiv, n, g), term.Bin(term.OpBvSrem, n, g)
		neg := term.Cmp(term.OpSlt, r, term.Const(64, 0))
		return term.Ite(neg, term.Bin(term.OpBvSub, q, term.Const(64, 1)), q), term.Ite(neg, term.Bin(term.OpBvAdd, r, g), r)
	}
	in["(time.Time).Unix"] = func(e *Engine, fn *ssa.Function, a []Value) Value {
		t := a[0].(TimeV)
		if t.Zero {
			return term.Const(64, uint64(0xfffffff1886e0900)) // -62135596800: seconds of year 1
		}
		q, _ := floorDivMod(t.NS)
		return q
	}
	in["(time.Time).Nanosecond"] = func(e *Engine, fn *ssa.Function, a []Value) Value {
		t := a[0].(TimeV)
		if t.Zero {
			return term.Const(64, 0)
		}
		_, r := floorDivMod(t.NS)
		return r
	}
	in["(time.Time).UnixNano"] = func(e *Engine, fn *ssa.Function, a []Value) Value {
		t := a[0].(TimeV)
		if t.Zero {
			panic(pathEnd{kind: endInconclusive, msg: "UnixNano of the zero time", site: e.where()})
		}
		return t.NS
	}

	// bytealg
	in["internal/bytealg.IndexByteString"] = func(e *Engine, fn *ssa.Function, a []Value) Value {
		return e.indexByte(a[0].(StrV).B, a[1].(*term.Term))
	}
	in["internal/bytealg.IndexByte"] = func(e *Engine, fn *ssa.Function, a []Value) Value {
		return e.indexByte(e.sliceBytes(a[0].(SliceV)), a[1].(*term.Term))
	}
	in["internal/bytealg.CountString"] = func(e *Engine, fn *ssa.Function, a []Value) Value {
		return e.countByte(a[0].(StrV).B, a[1].(*term.Term))
	}
	in["internal/bytealg.Count"] = func(e *Engine, fn *ssa.Function, a []Value) Value {
		return e.countByte(e.sliceBytes(a[0].(SliceV)), a[1].(*term.Term))
	}
	in["internal/bytealg.Equal"] = func(e *Engine, fn *ssa.Function, a []Value) Value {
		return e.strEq(StrV{B: e.sliceBytes(a[0].(SliceV))}, StrV{B: e.sliceBytes(a[1].(SliceV))})
	}
	in["internal/bytealg.MakeNoZero"] = func(e *Engine, fn *ssa.Function, a []Value) Value {
		n, ok := intOf(a[0])
		if !ok {
			panic(pathEnd{kind: endInconclusive, msg: "MakeNoZero with symbolic size", site: e.where()})
		}
		o := e.newArrayObj(types.Typ[types.Uint8], n, "")
		return SliceV{Obj: o, Len: n, Cap: n}
	}
	in["internal/bytealg.IndexString"] = func(e *Engine, fn *ssa.Function, a []Value) Value {
		return e.indexString(a[0].(StrV), a[1].(StrV))
	}
	in["internal/bytealg.Index"] = func(e *Engine, fn *ssa.Function, a []Value) Value {
		return e.indexString(StrV{B: e.sliceBytes(a[0].(SliceV))}, StrV{B: e.sliceBytes(a[1].(SliceV))})
	}
	in["strings.Index"] = func(e *Engine, fn *ssa.Function, a []Value) Value {
		return e.indexString(a[0].(StrV), a[1].(StrV))
	}
	in["internal/stringslite.Index"] = in["strings.Index"]
	in["errors.Is"] = func(e *Engine, fn *ssa.Function, a []Value) Value {
		return term.Bool(e.errorsIs(a[0].(IfaceV), a[1].(IfaceV), 0))
	}
	in["strconv.ParseFloat"] = func(e *Engine, fn *ssa.Function, a []Value) Value {
		str, ok := a[0].(StrV).concrete()
		bits, _ := intOf(a[1])
		if !ok {
			// symbolic literal: opaque value, error or not (the parser only derives a warning from it)
			v := e.freshVar("f", 64)
			if e.choose(0, 1) == 1 {
				e.logConcrete("parsefloat", 1)
				return TupleV{v, e.makeError(strConst("strconv.ParseFloat: parsing: invalid syntax"), nil)}
			}
			e.logConcrete("parsefloat", 0)
			return TupleV{v, IfaceV{}}
		}
		f, err := strconv.ParseFloat(str, bits)
		var ev Value = IfaceV{}
		if err != nil {
			ev = e.makeError(strConst(err.Error()), nil)
		}
		return TupleV{term.Const(64, math.Float64bits(f)), ev}
	}
	// sync primitives: single-threaded execution
	nop := func(e *Engine, fn *ssa.Function, a []Value) Value { return nil }
	for _, n := range []string{"(*sync.Mutex).Lock", "(*sync.Mutex).Unlock", "(*sync.RWMutex).Lock", "(*sync.RWMutex).Unlock", "(*sync.RWMutex).RLock", "(*sync.RWMutex).RUnlock"} {
		in[n] = nop
	}
	e.registerVstub()
	e.registerFmt()
}

func (e *Engine) indexByte(bs []*term.Term, c *term.Term) Value {
	// first i with bs[i]==c, else -1: ite chain from the end
	r := i64c(-1)
	for i := len(bs) - 1; i >= 0; i-- {
		r = term.Ite(term.Eq(bs[i], c), i64c(int64(i)), r)
	}
	return r
}

func (e *Engine) countByte(bs []*term.Term, c *term.Term) Value {
	r := i64c(0)
	for _, b := range bs {
		r = term.Bin(term.OpBvAdd, r, term.Ite(term.Eq(b, c), i64c(1), i64c(0)))
	}
	return r
}

func (e *Engine) indexString(s, sub StrV) Value {
	n, m := len(s.B), len(sub.B)
	if m == 0 {
		return i64c(0)
	}
	r := i64c(-1)
	for i := n - m; i >= 0; i-- {
		r = term.Ite(e.strEq(StrV{B: s.B[i : i+m]}, sub), i64c(int64(i)), r)
	}
	return r
}

// errorsIs implements errors.Is without reflection: comparable check is
// approximated by "dynamic type is a pointer or a basic type" (true for every
// error type in the code under test).
func (e *Engine) errorsIs(err, target IfaceV, depth int) bool {
	if err.IsNil() || target.IsNil() {
		return err.IsNil() && target.IsNil()
	}
	if depth > 50 {
		panic(pathEnd{kind: endRunaway, msg: "errors.Is chain too long", site: e.where()})
	}
	for {
		if types.Identical(err.T, target.T) {
			eq := e.valEq(err.V, target.V)
			if e.branch(eq) {
				return true
			}
		}
		if m := e.lookupMethod(err.T, "Is"); m != nil && m.Signature.Params().Len() == 1 {
			r := e.callFunction(m, []Value{err.V, target}).(*term.Term)
			if e.branch(r) {
				return true
			}
		}
		m := e.lookupMethod(err.T, "Unwrap")
		if m == nil {
			return false
		}
		res := m.Signature.Results()
		if res.Len() != 1 {
			return false
		}
		if _, ok := res.At(0).Type().Underlying().(*types.Slice); ok {
			s := e.callFunction(m, []Value{err.V}).(SliceV)
			if s.Len > 0 {
				arr := e.walk(s.Obj, s.Base).(*ArrayV)
				for i := 0; i < s.Len; i++ {
					if e.errorsIs(arr.E[s.Off+i].(IfaceV), target, depth+1) {
						return true
					}
				}
			}
			return false
		}
		next := e.callFunction(m, []Value{err.V}).(IfaceV)
		if next.IsNil() {
			return false
		}
		err = next
		depth++
		if depth > 50 {
			panic(pathEnd{kind: endRunaway, msg: "errors.Is chain too long", site: e.where()})
		}
	}
}

func (e *Engine) registerVstub() {
	in := e.intrinsic
	reg := func(name string, f intrinsicFn) {
		in["vh/vstub."+name] = f
	}
	nd := func(w int) intrinsicFn {
		return func(e *Engine, fn *ssa.Function, a []Value) Value { return e.freshVar("v", w) }
	}
	reg("NondetU8", nd(8))
	reg("NondetU16", nd(16))
	reg("NondetU32", nd(32))
	reg("NondetU64", nd(64))
	reg("NondetBool", func(e *Engine, fn *ssa.Function, a []Value) Value {
		return term.Eq(e.freshVar("b", 8), term.Const(8, 1))
	})
	reg("NondetBytes", func(e *Engine, fn *ssa.Function, a []Value) Value {
		n, ok := intOf(a[0])
		if !ok {
			panic(internalf("NondetBytes: symbolic length"))
		}
		o := e.newArrayObj(types.Typ[types.Uint8], n, "")
		arr := o.Root.(*ArrayV)
		for i := 0; i < n; i++ {
			arr.E[i] = e.freshVar("v", 8)
		}
		return SliceV{Obj: o, Len: n, Cap: n}
	})
	reg("NondetString", func(e *Engine, fn *ssa.Function, a []Value) Value {
		n, ok := intOf(a[0])
		if !ok {
			panic(internalf("NondetString: symbolic length"))
		}
		b := make([]*term.Term, n)
		for i := range b {
			b[i] = e.freshVar("v", 8)
		}
		return StrV{B: b}
	})
	reg("Choose", func(e *Engine, fn *ssa.Function, a []Value) Value {
		lo, ok1 := intOf(a[0])
		hi, ok2 := intOf(a[1])
		if !ok1 || !ok2 {
			panic(internalf("Choose: symbolic bounds"))
		}
		if hi <= lo {
			return i64c(int64(lo))
		}
		v := e.choose(lo, hi)
		e.logConcrete("choose", uint64(int64(v)))
		return i64c(int64(v))
	})
	reg("Assume", func(e *Engine, fn *ssa.Function, a []Value) Value {
		e.assume(a[0].(*term.Term))
		return nil
	})
	reg("Assert", func(e *Engine, fn *ssa.Function, a []Value) Value {
		id, _ := a[0].(StrV).concrete()
		e.assertProp(id, a[1].(*term.Term))
		return nil
	})
	reg("And", func(e *Engine, fn *ssa.Function, a []Value) Value {
		return term.And(a[0].(*term.Term), a[1].(*term.Term))
	})
	reg("Or", func(e *Engine, fn *ssa.Function, a []Value) Value {
		return term.Or(a[0].(*term.Term), a[1].(*term.Term))
	})
	reg("Note", func(e *Engine, fn *ssa.Function, a []Value) Value {
		s, _ := a[0].(StrV).concrete()
		e.notes = append(e.notes, s)
		return nil
	})
	reg("Reach", func(e *Engine, fn *ssa.Function, a []Value) Value {
		s, _ := a[0].(StrV).concrete()
		e.Stats.AssertIDs["reach:"+s]++
		e.Stats.ReachWitness++
		return nil
	})
	reg("SetLoopBudget", func(e *Engine, fn *ssa.Function, a []Value) Value {
		n, _ := intOf(a[0])
		e.loopBud = n
		return nil
	})
	reg("SetEnumBound", func(e *Engine, fn *ssa.Function, a []Value) Value {
		n, _ := intOf(a[0])
		e.enumBound = n
		return nil
	})
	reg("SetAllocLimit", func(e *Engine, fn *ssa.Function, a []Value) Value {
		n, _ := intOf(a[0])
		e.allocLim = int64(n)
		return nil
	})
	reg("PermuteRanges", func(e *Engine, fn *ssa.Function, a []Value) Value {
		e.permute = a[0].(*term.Term).IsTrue()
		return nil
	})
	reg("Panics", func(e *Engine, fn *ssa.Function, a []Value) (res Value) {
		d, nf, np := e.depth, len(e.curFn), len(e.curPos)
		defer func() {
			if r := recover(); r != nil {
				if pe, ok := r.(pathEnd); ok && pe.kind == endPanic {
					e.depth, e.curFn, e.curPos = d, e.curFn[:nf], e.curPos[:np]
					res = term.True
					return
				}
				panic(r)
			}
		}()
		e.invoke(a[0], nil)
		return term.False
	})
	reg("B2U8", func(e *Engine, fn *ssa.Function, a []Value) Value {
		return term.Ite(a[0].(*term.Term), term.Const(8, 1), term.Const(8, 0))
	})
	reg("IsSymbolic", func(e *Engine, fn *ssa.Function, a []Value) Value { return term.True })
}

func lastSeg(s string) string {
	if i := strings.LastIndex(s, "/"); i >= 0 {
		return s[i+1:]
	}
	return s
}

// lookupMethod returns the exported method name of type t, or nil.
func (e *Engine) lookupMethod(t types.Type, name string) *ssa.Function {
	sel := e.Prog.MethodSets.MethodSet(t).Lookup(nil, name)
	if sel == nil {
		return nil
	}
	return e.Prog.MethodValue(sel)
}
