package interp

import (
	"fmt"
	"go/constant"
	"go/token"
	"go/types"
	"math"
	"os"
	"strings"

	"golang.org/x/tools/go/ssa"

	"gosym/term"
)

type funcInfo struct {
	idx   map[ssa.Value]int
	n     int
	name  string
	intr  intrinsicFn
	hasIn bool
}

type deferred struct {
	fn   Value
	args []Value
	call *ssa.CallCommon
}

type frame struct {
	fn     *ssa.Function
	info   *funcInfo
	regs   []Value
	block  *ssa.BasicBlock
	prev   *ssa.BasicBlock
	visits []int
	defers []deferred
	result Value
}

func (e *Engine) info(fn *ssa.Function) *funcInfo {
	if fi, ok := e.finfo[fn]; ok {
		return fi
	}
	fi := &funcInfo{idx: map[ssa.Value]int{}, name: fn.String()}
	add := func(v ssa.Value) {
		fi.idx[v] = fi.n
		fi.n++
	}
	for _, p := range fn.Params {
		add(p)
	}
	for _, fv := range fn.FreeVars {
		add(fv)
	}
	for _, b := range fn.Blocks {
		for _, ins := range b.Instrs {
			if v, ok := ins.(ssa.Value); ok {
				add(v)
			}
		}
	}
	if in, ok := e.intrinsic[fi.name]; ok {
		fi.intr = in
		fi.hasIn = true
	} else if fn.Blocks == nil && len(fn.Name()) > 1 && fn.Name()[0] == 'v' && fn.Signature.Recv() == nil {
		// in-package harness stubs: a body-less v<Name> is vstub.<Name>
		if in, ok := e.intrinsic["vh/vstub."+fn.Name()[1:]]; ok {
			fi.intr = in
			fi.hasIn = true
		}
	}
	e.finfo[fn] = fi
	return fi
}

// deniedInit lists packages whose initialisers are never run.
func deniedInit(path string) bool {
	switch path {
	case "os", "syscall", "reflect", "time", "fmt", "unsafe", "sync", "sync/atomic", "log", "flag", "testing", "math/rand", "os/signal", "io/fs", "path/filepath", "io/ioutil":
		return true
	}
	return strings.HasPrefix(path, "runtime") || strings.HasPrefix(path, "internal/")
}

func (e *Engine) callFunction(fn *ssa.Function, args []Value) Value {
	fi := e.info(fn)
	if fi.hasIn {
		return fi.intr(e, fn, args)
	}
	if fn.Synthetic == "package initializer" && fn.Pkg != nil && (e.depth > 0 || !e.inBase) {
		// dependency initialisers are run up front by InitPackages
		return nil
	}
	if fn.Blocks == nil {
		panic(pathEnd{kind: endInconclusive, msg: "no-body:" + fi.name, site: e.where()})
	}
	if e.depth > e.Opt.CallDepth {
		panic(pathEnd{kind: endRunaway, msg: "call depth exceeded", site: e.where()})
	}
	if !e.inBase {
		e.Stats.Funcs[fi.name] = true
	}
	fr := &frame{fn: fn, info: fi, regs: make([]Value, fi.n), visits: make([]int, len(fn.Blocks))}
	for i, p := range fn.Params {
		_ = p
		fr.regs[i] = args[i]
	}
	e.depth++
	e.curFn = append(e.curFn, fn)
	e.curPos = append(e.curPos, nil)
	// no defer: when a path ends by panic the stacks stay as they were at the
	// failing instruction so that the driver can report function and position
	r := e.runFrame(fr)
	e.depth--
	e.curFn = e.curFn[:len(e.curFn)-1]
	e.curPos = e.curPos[:len(e.curPos)-1]
	return r
}

func (e *Engine) callClosure(f FuncV, args []Value) Value {
	if f.Builtin != nil {
		return e.callBuiltin(f.Builtin, args, nil)
	}
	if f.Fn == nil {
		panic(pathEnd{kind: endPanic, msg: "nil pointer dereference (call of nil func)", site: e.where()})
	}
	if f.Recv != nil {
		args = append([]Value{f.Recv}, args...)
	}
	fi := e.info(f.Fn)
	if fi.hasIn {
		return fi.intr(e, f.Fn, args)
	}
	if f.Fn.Blocks == nil {
		panic(pathEnd{kind: endInconclusive, msg: "no-body:" + fi.name, site: e.where()})
	}
	fr := &frame{fn: f.Fn, info: fi, regs: make([]Value, fi.n), visits: make([]int, len(f.Fn.Blocks))}
	np := len(f.Fn.Params)
	for i := 0; i < np; i++ {
		fr.regs[i] = args[i]
	}
	for i, b := range f.Bindings {
		fr.regs[np+i] = b
	}
	if e.depth > e.Opt.CallDepth {
		panic(pathEnd{kind: endRunaway, msg: "call depth exceeded", site: e.where()})
	}
	if !e.inBase {
		e.Stats.Funcs[fi.name] = true
	}
	e.depth++
	e.curFn = append(e.curFn, f.Fn)
	e.curPos = append(e.curPos, nil)
	r := e.runFrame(fr)
	e.depth--
	e.curFn = e.curFn[:len(e.curFn)-1]
	e.curPos = e.curPos[:len(e.curPos)-1]
	return r
}

func (e *Engine) get(fr *frame, v ssa.Value) Value {
	switch x := v.(type) {
	case *ssa.Const:
		return e.constValue(x)
	case *ssa.Global:
		return PtrV{Obj: e.global(x)}
	case *ssa.Function:
		return FuncV{Fn: x}
	case *ssa.Builtin:
		return FuncV{Builtin: x}
	}
	i, ok := fr.info.idx[v]
	if !ok {
		panic(internalf("get: unknown value %s (%T) in %s", v.Name(), v, fr.fn))
	}
	r := fr.regs[i]
	if r == nil {
		panic(internalf("get: unset register %s in %s", v.Name(), fr.fn))
	}
	return r
}

func (e *Engine) constValue(c *ssa.Const) Value {
	if v, ok := e.constCache[c]; ok {
		return v
	}
	v := e.constValue1(c)
	switch v.(type) {
	case *term.Term, StrV:
		e.constCache[c] = v // immutable values only
	}
	return v
}

func (e *Engine) constValue1(c *ssa.Const) Value {
	t := c.Type()
	if c.Value == nil {
		return zero(t)
	}
	if isString(t) {
		return strConst(constant.StringVal(c.Value))
	}
	b, ok := t.Underlying().(*types.Basic)
	if !ok {
		panic(internalf("const of type %v", t))
	}
	switch {
	case b.Info()&types.IsBoolean != 0:
		return term.Bool(constant.BoolVal(c.Value))
	case b.Info()&types.IsInteger != 0:
		w, _, _ := scalarWidth(t)
		if i, ok := constant.Int64Val(constant.ToInt(c.Value)); ok {
			return term.Const(w, uint64(i))
		}
		u, _ := constant.Uint64Val(constant.ToInt(c.Value))
		return term.Const(w, u)
	case b.Info()&types.IsFloat != 0:
		f, _ := constant.Float64Val(c.Value)
		if b.Kind() == types.Float32 {
			return term.Const(32, uint64(math.Float32bits(float32(f))))
		}
		return term.Const(64, math.Float64bits(f))
	}
	panic(internalf("const of basic type %v", t))
}

func (e *Engine) runFrame(fr *frame) Value {
	fr.block = fr.fn.Blocks[0]
	for {
		bi := fr.block.Index
		fr.visits[bi]++
		if fr.visits[bi] > e.loopBud {
			panic(pathEnd{kind: endRunaway, msg: "loop budget exceeded", site: e.blockSite(fr.block)})
		}
		next, ret, done := e.runBlock(fr)
		if done {
			return ret
		}
		fr.prev = fr.block
		fr.block = next
	}
}

func (e *Engine) blockSite(b *ssa.BasicBlock) string {
	for _, ins := range b.Instrs {
		if p := ins.Pos(); p.IsValid() {
			pos := e.Prog.Fset.Position(p)
			return fmt.Sprintf("%s:%d", pos.Filename, pos.Line)
		}
	}
	return e.where()
}

func (e *Engine) runBlock(fr *frame) (next *ssa.BasicBlock, ret Value, done bool) {
	top := len(e.curPos) - 1
	for _, ins := range fr.block.Instrs {
		e.instrs++
		if e.instrs > e.Opt.InstrBudget && !e.inBase {
			panic(pathEnd{kind: endRunaway, msg: "instruction budget exceeded", site: e.where()})
		}
		e.curPos[top] = ins
		if e.Opt.Trace && !e.inBase {
			fmt.Fprintf(os.Stderr, "%*s%s: %s\n", e.depth, "", fr.fn.Name(), ins)
		}
		switch x := ins.(type) {
		case *ssa.Jump:
			return fr.block.Succs[0], nil, false
		case *ssa.If:
			c := e.get(fr, x.Cond).(*term.Term)
			if e.branch(c) {
				return fr.block.Succs[0], nil, false
			}
			return fr.block.Succs[1], nil, false
		case *ssa.Return:
			var res Value
			switch len(x.Results) {
			case 0:
			case 1:
				res = e.get(fr, x.Results[0])
			default:
				tv := make(TupleV, len(x.Results))
				for i, r := range x.Results {
					tv[i] = e.get(fr, r)
				}
				res = tv
			}
			return nil, res, true
		case *ssa.Panic:
			v := e.get(fr, x.X)
			panic(pathEnd{kind: endPanic, msg: "explicit panic: " + e.describe(v), site: e.where()})
		case *ssa.RunDefers:
			e.runDefers(fr)
		case *ssa.Defer:
			d := deferred{call: &x.Call}
			d.fn, d.args = e.prepareCall(fr, &x.Call)
			fr.defers = append(fr.defers, d)
		case *ssa.Go, *ssa.Send, *ssa.Select:
			panic(pathEnd{kind: endInconclusive, msg: "concurrency", site: e.where()})
		case *ssa.Store:
			p := e.get(fr, x.Addr).(PtrV)
			e.store(p, e.get(fr, x.Val))
		case *ssa.MapUpdate:
			m := e.get(fr, x.Map).(*MapObj)
			e.mapUpdate(m, e.get(fr, x.Key), e.get(fr, x.Value))
		case *ssa.DebugRef:
		case ssa.Value:
			var v Value
			if e.inBase && fr.fn.Synthetic == "package initializer" {
				v = e.evalInitGuarded(fr, x)
			} else {
				v = e.evalValue(fr, x)
			}
			fr.regs[fr.info.idx[x]] = v
		default:
			panic(internalf("unsupported instruction %T", ins))
		}
	}
	panic(internalf("block without terminator"))
}

// evalInitGuarded evaluates an instruction of a package initialiser; if it
// needs something the engine does not support (reflection, runtime hooks) the
// value is left at its zero value and the event is logged.
func (e *Engine) evalInitGuarded(fr *frame, x ssa.Value) (v Value) {
	d, nf, np := e.depth, len(e.curFn), len(e.curPos)
	defer func() {
		if r := recover(); r != nil {
			var msg string
			switch y := r.(type) {
			case pathEnd:
				msg = y.msg
			case internalErr:
				msg = y.msg
			default:
				panic(r)
			}
			e.depth, e.curFn, e.curPos = d, e.curFn[:nf], e.curPos[:np]
			e.InitWarnings = append(e.InitWarnings, fmt.Sprintf("%s: %s: %s", fr.fn.Pkg.Pkg.Path(), x, msg))
			if _, ok := x.Type().(*types.Tuple); ok || x.Type() == nil {
				v = zero(x.Type())
			} else {
				v = zero(x.Type())
			}
		}
	}()
	return e.evalValue(fr, x)
}

func (e *Engine) runDefers(fr *frame) {
	for len(fr.defers) > 0 {
		d := fr.defers[len(fr.defers)-1]
		fr.defers = fr.defers[:len(fr.defers)-1]
		e.invoke(d.fn, d.args)
	}
}

// prepareCall evaluates callee and arguments.
func (e *Engine) prepareCall(fr *frame, c *ssa.CallCommon) (Value, []Value) {
	var args []Value
	var fn Value
	if c.IsInvoke() {
		recv := e.get(fr, c.Value).(IfaceV)
		if recv.IsNil() {
			panic(pathEnd{kind: endPanic, msg: "nil pointer dereference (method call on nil interface)", site: e.where()})
		}
		m := e.Prog.LookupMethod(recv.T, c.Method.Pkg(), c.Method.Name())
		if m == nil {
			panic(internalf("no method %s on %v", c.Method.Name(), recv.T))
		}
		fn = FuncV{Fn: m}
		args = append(args, recv.V)
	} else {
		fn = e.get(fr, c.Value)
	}
	for _, a := range c.Args {
		args = append(args, e.get(fr, a))
	}
	return fn, args
}

func (e *Engine) invoke(fn Value, args []Value) Value {
	f := fn.(FuncV)
	if f.Builtin != nil {
		return e.callBuiltin(f.Builtin, args, nil)
	}
	if f.Fn != nil && f.Bindings == nil && f.Recv == nil {
		return e.callFunction(f.Fn, args)
	}
	return e.callClosure(f, args)
}

func (e *Engine) evalValue(fr *frame, v ssa.Value) Value {
	switch x := v.(type) {
	case *ssa.Alloc:
		t := x.Type().(*types.Pointer).Elem()
		o := e.newObject(t, zero(t), "")
		return PtrV{Obj: o}
	case *ssa.Phi:
		for i, p := range fr.block.Preds {
			if p == fr.prev {
				return e.get(fr, x.Edges[i])
			}
		}
		panic(internalf("phi: no matching predecessor"))
	case *ssa.Call:
		if b, ok := x.Call.Value.(*ssa.Builtin); ok && !x.Call.IsInvoke() {
			args := make([]Value, len(x.Call.Args))
			for i, a := range x.Call.Args {
				args[i] = e.get(fr, a)
			}
			return e.callBuiltin(b, args, x)
		}
		fn, args := e.prepareCall(fr, &x.Call)
		r := e.invoke(fn, args)
		if r == nil {
			return TupleV(nil)
		}
		return r
	case *ssa.BinOp:
		return e.binop(x.Op, x.X.Type(), e.get(fr, x.X), e.get(fr, x.Y), x.Y.Type())
	case *ssa.UnOp:
		return e.unop(x, e.get(fr, x.X))
	case *ssa.ChangeType:
		return e.get(fr, x.X)
	case *ssa.Convert:
		return e.convert(x.X.Type(), x.Type(), e.get(fr, x.X))
	case *ssa.MultiConvert:
		return e.convert(x.X.Type(), x.Type(), e.get(fr, x.X))
	case *ssa.ChangeInterface:
		return e.get(fr, x.X)
	case *ssa.SliceToArrayPointer:
		s := e.get(fr, x.X).(SliceV)
		n := int(x.Type().(*types.Pointer).Elem().Underlying().(*types.Array).Len())
		if s.Len < n {
			panic(pathEnd{kind: endPanic, msg: "slice bounds out of range (slice to array pointer)", site: e.where()})
		}
		if s.IsNil() {
			return PtrV{}
		}
		if s.Off == 0 && s.Len == n {
			if arr, ok := e.walk(s.Obj, s.Base).(*ArrayV); ok && len(arr.E) == n {
				return PtrV{Obj: s.Obj, Path: s.Base}
			}
		}
		// a view into the middle of a backing array cannot be expressed as a path:
		// hand out a pointer to a copy of the n cells (exact for the read-only uses
		// in the code under test: *(*[4]byte)(b) is loaded immediately)
		arr := e.walk(s.Obj, s.Base).(*ArrayV)
		cp := &ArrayV{E: make([]Value, n)}
		for i := 0; i < n; i++ {
			cp.E[i] = copyVal(arr.E[s.Off+i])
		}
		o := e.newObject(x.Type().(*types.Pointer).Elem(), cp, "")
		return PtrV{Obj: o}
	case *ssa.MakeInterface:
		return IfaceV{T: x.X.Type(), V: e.get(fr, x.X)}
	case *ssa.MakeClosure:
		fn := x.Fn.(*ssa.Function)
		b := make([]Value, len(x.Bindings))
		for i, bv := range x.Bindings {
			b[i] = e.get(fr, bv)
		}
		if b == nil {
			b = []Value{}
		}
		return FuncV{Fn: fn, Bindings: b}
	case *ssa.MakeMap:
		m := &MapObj{ID: e.nextObj, Base: e.inBase, Typ: x.Type().Underlying().(*types.Map)}
		e.nextObj++
		return m
	case *ssa.MakeSlice:
		return e.makeSlice(x.Type(), e.get(fr, x.Len).(*term.Term), e.get(fr, x.Cap).(*term.Term), x.Len.Type())
	case *ssa.MakeChan:
		panic(pathEnd{kind: endInconclusive, msg: "concurrency", site: e.where()})
	case *ssa.Slice:
		return e.sliceOp(fr, x)
	case *ssa.FieldAddr:
		p := e.get(fr, x.X).(PtrV)
		if p.IsNil() {
			panic(pathEnd{kind: endPanic, msg: "nil pointer dereference", site: e.where()})
		}
		return PtrV{Obj: p.Obj, Path: extPath(p.Path, x.Field)}
	case *ssa.Field:
		s := e.get(fr, x.X)
		if tv, ok := s.(TimeV); ok {
			_ = tv
			panic(pathEnd{kind: endInconclusive, msg: "field access on abstract time.Time", site: e.where()})
		}
		return copyVal(s.(*StructV).F[x.Field])
	case *ssa.IndexAddr:
		return e.indexAddr(fr, x)
	case *ssa.Index:
		return e.indexOp(fr, x)
	case *ssa.Lookup:
		return e.lookup(fr, x)
	case *ssa.Range:
		return e.rangeOp(e.get(fr, x.X))
	case *ssa.Next:
		return e.next(x, e.get(fr, x.Iter).(*IterV))
	case *ssa.TypeAssert:
		return e.typeAssert(x, e.get(fr, x.X).(IfaceV))
	case *ssa.Extract:
		return e.get(fr, x.Tuple).(TupleV)[x.Index]
	}
	panic(internalf("unsupported value instruction %T", v))
}

func (e *Engine) describe(v Value) string {
	switch x := v.(type) {
	case IfaceV:
		if x.IsNil() {
			return "nil"
		}
		if s, ok := x.V.(StrV); ok {
			return s.display()
		}
		// error values: try the common *errors.errorString / *fmt.wrapError layouts
		if p, ok := x.V.(PtrV); ok && !p.IsNil() {
			if sv, ok := e.load(p).(*StructV); ok && len(sv.F) > 0 {
				if s, ok := sv.F[0].(StrV); ok {
					return fmt.Sprintf("%v(%s)", x.T, s.display())
				}
			}
		}
		return fmt.Sprintf("%v", x.T)
	case StrV:
		return x.display()
	case *term.Term:
		return x.String()
	}
	return fmt.Sprintf("%T", v)
}

// ---------- memory ----------

func (e *Engine) walk(o *Object, path []int) Value {
	n := o.Root
	for _, i := range path {
		n = child(n, i)
	}
	return n
}

func (e *Engine) load(p PtrV) Value {
	if p.IsNil() {
		panic(pathEnd{kind: endPanic, msg: "nil pointer dereference", site: e.where()})
	}
	if p.SymIdx != nil {
		arr := e.walk(p.Obj, p.Path[:len(p.Path)-1]).(*ArrayV)
		off := p.Path[len(p.Path)-1]
		n := p.SymLen
		if n == 0 {
			n = len(arr.E) - off
		}
		v, ok := e.selectNoCheck(arr.E[off:off+n], p.SymIdx, p.SymType)
		if !ok {
			panic(internalf("symbolic-index load of non-scalar elements"))
		}
		return v
	}
	if p.As != nil {
		return e.unsafeLoad(p)
	}
	return copyVal(e.walk(p.Obj, p.Path))
}

func (e *Engine) store(p PtrV, v Value) {
	if p.IsNil() {
		panic(pathEnd{kind: endPanic, msg: "nil pointer dereference", site: e.where()})
	}
	if p.As != nil {
		e.unsafeStore(p, v)
		return
	}
	e.setLoc(p.Obj, p.Path, copyVal(v))
}

func (e *Engine) setLoc(o *Object, path []int, v Value) {
	if o.Base && !e.inBase {
		e.undo = append(e.undo, undoRec{obj: o, path: path, old: e.walk(o, path)})
	}
	if len(path) == 0 {
		o.Root = v
		return
	}
	n := o.Root
	for _, i := range path[:len(path)-1] {
		n = child(n, i)
	}
	setChild(n, path[len(path)-1], v)
}

// unsafeLoad reads a scalar of type p.As from consecutive byte cells, or a
// string view of a byte slice.
func (e *Engine) unsafeLoad(p PtrV) Value {
	if isString(p.As) {
		sv, ok := e.walk(p.Obj, p.Path).(SliceV)
		if !ok {
			panic(pathEnd{kind: endInconclusive, msg: "unsafe: string view of non-slice", site: e.where()})
		}
		return StrV{B: e.sliceBytes(sv)}
	}
	w, _, ok := scalarWidth(p.As)
	if !ok || w == 0 || w%8 != 0 {
		panic(pathEnd{kind: endInconclusive, msg: fmt.Sprintf("unsafe: load of %v", p.As), site: e.where()})
	}
	cells, base := e.byteCells(p, w/8)
	var t *term.Term
	for i := w/8 - 1; i >= 0; i-- {
		b := cells.E[base+i].(*term.Term)
		if t == nil {
			t = b
		} else {
			t = term.Concat(t, b)
		}
	}
	return t
}

func (e *Engine) unsafeStore(p PtrV, v Value) {
	w, _, ok := scalarWidth(p.As)
	if !ok || w == 0 || w%8 != 0 {
		panic(pathEnd{kind: endInconclusive, msg: fmt.Sprintf("unsafe: store of %v", p.As), site: e.where()})
	}
	cells, base := e.byteCells(p, w/8)
	t := v.(*term.Term)
	for i := 0; i < w/8; i++ {
		e.setLoc(p.Obj, extPath(p.Path[:len(p.Path)-1], base+i), term.Extract(8*i+7, 8*i, t))
	}
	_ = cells
}

// byteCells resolves the byte array containing the cell p points at and
// checks that n cells starting there exist in the backing array.
func (e *Engine) byteCells(p PtrV, n int) (*ArrayV, int) {
	if len(p.Path) == 0 {
		panic(pathEnd{kind: endInconclusive, msg: "unsafe: pointer not into an array", site: e.where()})
	}
	parent := e.walk(p.Obj, p.Path[:len(p.Path)-1])
	arr, ok := parent.(*ArrayV)
	if !ok {
		panic(pathEnd{kind: endInconclusive, msg: "unsafe: pointer not into an array", site: e.where()})
	}
	base := p.Path[len(p.Path)-1]
	if len(arr.E) > 0 {
		if _, ok := arr.E[0].(*term.Term); !ok || arr.E[0].(*term.Term).W != 8 {
			panic(pathEnd{kind: endInconclusive, msg: "unsafe: reinterpretation of non-byte array", site: e.where()})
		}
	}
	if base+n > len(arr.E) {
		e.recordViolation("unsafe-oob", "unsafe access past backing array", e.where(),
			fmt.Sprintf("unsafe %d-byte access at cell %d of a %d-byte backing array", n, base, len(arr.E)))
		panic(pathEnd{kind: endAbandon})
	}
	return arr, base
}

func (e *Engine) sliceBytes(s SliceV) []*term.Term {
	out := make([]*term.Term, s.Len)
	if s.Len == 0 {
		return out
	}
	arr := e.walk(s.Obj, s.Base).(*ArrayV)
	for i := 0; i < s.Len; i++ {
		out[i] = arr.E[s.Off+i].(*term.Term)
	}
	return out
}

func (e *Engine) newArrayObj(elem types.Type, n int, site string) *Object {
	a := &ArrayV{E: make([]Value, n)}
	if n > 0 {
		z := zero(elem)
		switch z.(type) {
		case *StructV, *ArrayV:
			for i := range a.E {
				a.E[i] = copyVal(z)
			}
		default:
			for i := range a.E {
				a.E[i] = z
			}
		}
	}
	return e.newObject(types.NewArray(elem, int64(n)), a, site)
}

func (e *Engine) makeSlice(t types.Type, ln, cp *term.Term, lenType types.Type) Value {
	elem := t.Underlying().(*types.Slice).Elem()
	esz := sizes.Sizeof(elem)
	_, signed, _ := scalarWidth(lenType)
	if ln.W < 64 {
		ln = term.Resize(ln, 64, signed)
	}
	if cp.W < 64 {
		cp = term.Resize(cp, 64, signed)
	}
	e.Stats.Allocs++
	if !ln.IsConst() || !cp.IsConst() {
		// negative / oversized request?
		if signed {
			neg := term.Cmp(term.OpSlt, ln, term.Const(64, 0))
			if e.fork([]*term.Term{term.Not(neg), neg}) == 1 {
				panic(pathEnd{kind: endPanic, msg: "makeslice: len out of range", site: e.where()})
			}
		}
		if esz > 0 {
			lim := e.allocLim / esz
			big := term.Cmp(term.OpUlt, term.Const(64, uint64(lim)), ln)
			if e.fork([]*term.Term{term.Not(big), big}) == 1 {
				// prefer a witness that is unmistakable when replayed natively
				var extra []*term.Term
				huge := term.Cmp(term.OpUlt, term.Const(64, 1<<26), ln)
				if ok, sure := e.feasible(huge); ok && sure {
					extra = append(extra, huge)
				}
				e.recordViolation("alloc", "allocation out of proportion", e.where(),
					fmt.Sprintf("make([]%v, n) with n > %d feasible (element size %d)", elem, lim, esz), extra...)
				panic(pathEnd{kind: endAbandon})
			}
		}
	}
	n := e.concretize(ln, signed, "make-len")
	c := n
	if cp != ln {
		c = e.concretize(cp, signed, "make-cap")
	}
	if n < 0 || c < n {
		panic(pathEnd{kind: endPanic, msg: "makeslice: len out of range", site: e.where()})
	}
	if esz > 0 && n*esz > e.allocLim && !e.inBase {
		e.recordViolation("alloc", "allocation out of proportion", e.where(), fmt.Sprintf("make of %d elements", n))
		panic(pathEnd{kind: endAbandon})
	}
	if n > 1<<22 {
		panic(pathEnd{kind: endInconclusive, msg: "huge-concrete-make", site: e.where()})
	}
	o := e.newArrayObj(elem, int(c), "")
	return SliceV{Obj: o, Len: int(n), Cap: int(c)}
}

// boundInt resolves a (possibly symbolic) slice bound / index to a concrete
// value within [0, max]; an infeasible bound ends the path with a panic.
func (e *Engine) boundInt(t *term.Term, typ types.Type, max int, msg string) int {
	_, signed, _ := scalarWidth(typ)
	if t.IsConst() {
		var v int64
		if signed {
			v = t.SignedVal()
		} else {
			v = int64(t.Val)
			if v < 0 {
				v = math.MaxInt64
			}
		}
		if v < 0 || v > int64(max) {
			panic(pathEnd{kind: endPanic, msg: fmt.Sprintf("%s [%d] with bound %d", msg, v, max), site: e.where()})
		}
		return int(v)
	}
	t64 := term.Resize(t, 64, signed)
	bad := term.Cmp(term.OpUlt, term.Const(64, uint64(max)), t64) // unsigned: also catches negatives
	if e.fork([]*term.Term{term.Not(bad), bad}) == 1 {
		panic(pathEnd{kind: endPanic, msg: msg + " (symbolic)", site: e.where()})
	}
	return int(e.concretize(t64, false, msg))
}

func (e *Engine) sliceOp(fr *frame, x *ssa.Slice) Value {
	base := e.get(fr, x.X)
	var lo, hi, mx *term.Term
	if x.Low != nil {
		lo = e.get(fr, x.Low).(*term.Term)
	}
	if x.High != nil {
		hi = e.get(fr, x.High).(*term.Term)
	}
	if x.Max != nil {
		mx = e.get(fr, x.Max).(*term.Term)
	}
	const msg = "slice bounds out of range"
	switch b := base.(type) {
	case StrV:
		n := len(b.B)
		h := n
		if hi != nil {
			h = e.boundInt(hi, x.High.Type(), n, msg)
		}
		l := 0
		if lo != nil {
			l = e.boundInt(lo, x.Low.Type(), h, msg)
		}
		return StrV{B: b.B[l:h]}
	case SliceV:
		c := b.Cap
		m := c
		if mx != nil {
			m = e.boundInt(mx, x.Max.Type(), c, msg)
		}
		h := b.Len
		if hi != nil {
			h = e.boundInt(hi, x.High.Type(), m, msg)
		} else if h > m {
			panic(pathEnd{kind: endPanic, msg: msg, site: e.where()})
		}
		l := 0
		if lo != nil {
			l = e.boundInt(lo, x.Low.Type(), h, msg)
		}
		if b.IsNil() {
			return SliceV{}
		}
		return SliceV{Obj: b.Obj, Base: b.Base, Off: b.Off + l, Len: h - l, Cap: m - l}
	case PtrV:
		if b.IsNil() {
			panic(pathEnd{kind: endPanic, msg: "nil pointer dereference", site: e.where()})
		}
		arr := e.walk(b.Obj, b.Path).(*ArrayV)
		c := len(arr.E)
		m := c
		if mx != nil {
			m = e.boundInt(mx, x.Max.Type(), c, msg)
		}
		h := c
		if hi != nil {
			h = e.boundInt(hi, x.High.Type(), m, msg)
		}
		l := 0
		if lo != nil {
			l = e.boundInt(lo, x.Low.Type(), h, msg)
		}
		return SliceV{Obj: b.Obj, Base: b.Path, Off: l, Len: h - l, Cap: m - l}
	}
	panic(internalf("slice of %T", base))
}

func (e *Engine) indexAddr(fr *frame, x *ssa.IndexAddr) Value {
	base := e.get(fr, x.X)
	idx := e.get(fr, x.Index).(*term.Term)
	const msg = "index out of range"
	switch b := base.(type) {
	case SliceV:
		if !idx.IsConst() && b.Len > 8 && b.Len <= 1024 && onlyLoaded(x) {
			arr := e.walk(b.Obj, b.Base).(*ArrayV)
			if allScalar(arr.E[b.Off : b.Off+b.Len]) {
				e.checkIndex(idx, x.Index.Type(), b.Len)
				_, signed, _ := scalarWidth(x.Index.Type())
				i64 := term.Resize(idx, 64, signed)
				return PtrV{Obj: b.Obj, Path: extPath(b.Base, b.Off), SymIdx: i64, SymType: types.Typ[types.Int], SymLen: b.Len}
			}
		}
		i := e.boundInt(idx, x.Index.Type(), b.Len-1, msg)
		return PtrV{Obj: b.Obj, Path: extPath(b.Base, b.Off+i)}
	case PtrV:
		if b.IsNil() {
			panic(pathEnd{kind: endPanic, msg: "nil pointer dereference", site: e.where()})
		}
		arr := e.walk(b.Obj, b.Path).(*ArrayV)
		if !idx.IsConst() && len(arr.E) > 8 && len(arr.E) <= 1024 && onlyLoaded(x) && allScalar(arr.E) {
			e.checkIndex(idx, x.Index.Type(), len(arr.E))
			return PtrV{Obj: b.Obj, Path: extPath(b.Path, 0), SymIdx: idx, SymType: x.Index.Type()}
		}
		i := e.boundInt(idx, x.Index.Type(), len(arr.E)-1, msg)
		return PtrV{Obj: b.Obj, Path: extPath(b.Path, i)}
	}
	panic(internalf("indexaddr of %T", base))
}

func (e *Engine) indexOp(fr *frame, x *ssa.Index) Value {
	base := e.get(fr, x.X)
	idx := e.get(fr, x.Index).(*term.Term)
	const msg = "index out of range"
	switch b := base.(type) {
	case *ArrayV:
		if !idx.IsConst() && len(b.E) <= 512 {
			if v, ok := e.selectArray(b.E, idx, x.Index.Type()); ok {
				return v
			}
		}
		i := e.boundInt(idx, x.Index.Type(), len(b.E)-1, msg)
		return copyVal(b.E[i])
	case StrV:
		if !idx.IsConst() && len(b.B) <= 512 {
			vals := make([]Value, len(b.B))
			for i, t := range b.B {
				vals[i] = t
			}
			if v, ok := e.selectArray(vals, idx, x.Index.Type()); ok {
				return v
			}
		}
		i := e.boundInt(idx, x.Index.Type(), len(b.B)-1, msg)
		return b.B[i]
	}
	panic(internalf("index of %T", base))
}

// onlyLoaded reports whether every use of the address is a load.
func onlyLoaded(x *ssa.IndexAddr) bool {
	refs := x.Referrers()
	if refs == nil || len(*refs) == 0 {
		return false
	}
	for _, r := range *refs {
		u, ok := r.(*ssa.UnOp)
		if !ok || u.Op != token.MUL {
			if _, dbg := r.(*ssa.DebugRef); dbg {
				continue
			}
			return false
		}
	}
	return true
}

func allScalar(vs []Value) bool {
	for _, v := range vs {
		if _, ok := v.(*term.Term); !ok {
			return false
		}
	}
	return len(vs) > 0
}

// checkIndex forks into the panic path if the index can be out of range.
func (e *Engine) checkIndex(idx *term.Term, ityp types.Type, n int) {
	_, signed, _ := scalarWidth(ityp)
	i64 := term.Resize(idx, 64, signed)
	bad := term.Cmp(term.OpUle, term.Const(64, uint64(n)), i64)
	if e.fork([]*term.Term{term.Not(bad), bad}) == 1 {
		panic(pathEnd{kind: endPanic, msg: "index out of range (symbolic)", site: e.where()})
	}
}

// selectNoCheck builds the ite chain for an index already known to be in range.
func (e *Engine) selectNoCheck(elems []Value, idx *term.Term, ityp types.Type) (Value, bool) {
	if !allScalar(elems) {
		return nil, false
	}
	_, signed, _ := scalarWidth(ityp)
	i64 := term.Resize(idx, 64, signed)
	res := elems[len(elems)-1].(*term.Term)
	for i := len(elems) - 2; i >= 0; i-- {
		el := elems[i].(*term.Term)
		if el == elems[i+1].(*term.Term) {
			// same value as its right neighbour: the neighbour's test (idx <= i+1) covers it
			continue
		}
		res = term.Ite(term.Cmp(term.OpUle, i64, term.Const(64, uint64(i))), el, res)
	}
	return res, true
}

// selectArray builds an ite chain for a symbolic index into scalar elements;
// the out-of-range case still forks into a panic path.
func (e *Engine) selectArray(elems []Value, idx *term.Term, ityp types.Type) (Value, bool) {
	if len(elems) == 0 {
		return nil, false
	}
	for _, el := range elems {
		if _, ok := el.(*term.Term); !ok {
			return nil, false
		}
	}
	_, signed, _ := scalarWidth(ityp)
	i64 := term.Resize(idx, 64, signed)
	bad := term.Cmp(term.OpUle, term.Const(64, uint64(len(elems))), i64)
	if e.fork([]*term.Term{term.Not(bad), bad}) == 1 {
		panic(pathEnd{kind: endPanic, msg: "index out of range (symbolic)", site: e.where()})
	}
	res := elems[len(elems)-1].(*term.Term)
	for i := len(elems) - 2; i >= 0; i-- {
		el := elems[i].(*term.Term)
		if el == elems[i+1].(*term.Term) {
			continue
		}
		res = term.Ite(term.Cmp(term.OpUle, i64, term.Const(64, uint64(i))), el, res)
	}
	return res, true
}

// ---------- strings ----------

func (e *Engine) strEq(a, b StrV) *term.Term {
	if len(a.B) != len(b.B) {
		return term.False
	}
	r := term.True
	for i := range a.B {
		r = term.And(r, term.Eq(a.B[i], b.B[i]))
		if r.IsFalse() {
			return r
		}
	}
	return r
}

// strLess builds a <lex b.
func (e *Engine) strLess(a, b StrV) *term.Term {
	n := len(a.B)
	if len(b.B) < n {
		n = len(b.B)
	}
	// from the end: less = a[i]<b[i] || (a[i]==b[i] && rest)
	rest := term.Bool(len(a.B) < len(b.B))
	for i := n - 1; i >= 0; i-- {
		lt := term.Cmp(term.OpUlt, a.B[i], b.B[i])
		eq := term.Eq(a.B[i], b.B[i])
		rest = term.Or(lt, term.And(eq, rest))
	}
	return rest
}

// ---------- positions ----------

func (e *Engine) posOf(p token.Pos) string {
	if !p.IsValid() {
		return "?"
	}
	pos := e.Prog.Fset.Position(p)
	return fmt.Sprintf("%s:%d", pos.Filename, pos.Line)
}
