package interp

import (
	"fmt"
	"go/types"
	"os"
	"os/exec"
	"sort"
	"strings"
	"time"

	"golang.org/x/tools/go/ssa"

	"gosym/smt"
	"gosym/term"
)

// ---------- path termination ----------

type endKind int

const (
	endNormal endKind = iota
	endPanic
	endInfeasible   // Assume(false) or no feasible alternative
	endRunaway      // loop / recursion / instruction budget exceeded
	endInconclusive // unsupported feature or solver unknown
	endAbandon      // path cut after a recorded violation
	endBoundCut     // path left the stated enumeration bound (count/length too large to enumerate)
	endOtherShard   // path belongs to another shard of this function's path space
)

type pathEnd struct {
	kind endKind
	msg  string
	site string
}

// Violation is one counterexample found on a path.
type Violation struct {
	Kind   string     // "assert", "panic", "runaway", "alloc", "unsafe-oob"
	ID     string     // assertion id / panic message class
	Site   string     // source position (file:line) of the failing statement
	Func   string     // function containing the site
	Stmt   string     // normalised source text of the failing statement, if available
	Detail string     // free text
	Stack  []Frame    // call stack at the failure, innermost first (function, site, statement)
	Script []uint64   // nondet results in call order (replay input)
	Alt    [][]uint64 // further witnesses of the same site (other paths), tried if the first does not reproduce
	Notes  []string   // harness notes on this path
	Count  int        // number of paths with the same signature
}

type Frame struct {
	Func string
	Site string
	Stmt string
}

func (v *Violation) Sig() string {
	s := v.Kind + "|" + v.ID + "|" + v.Func + "|" + v.Stmt
	for i, f := range v.Stack {
		if i >= 4 {
			break
		}
		s += "|" + f.Func + "@" + f.Stmt
	}
	return s
}

type decision struct {
	n     int      // number of alternatives (feasible ones)
	alts  []uint64 // values identifying alternatives (index into alt list or concrete value)
	cur   int
	kind  byte // 'f' fork over terms, 'c' concretize, 'k' choose
	depth int
}

type nondetRec struct {
	t     *term.Term
	cval  uint64
	isSym bool
	kind  string
}

type undoRec struct {
	obj  *Object
	path []int
	old  Value
	m    *MapObj
	ents []*mapEntry
}

type Stats struct {
	OtherShard    int // decision prefixes left to other shards
	Paths         int
	PathsByEnd    map[string]int
	Instrs        int64
	Obligations   int
	ByRewriting   int
	BySolver      int
	Inconclusive  int
	InconReasons  map[string]int
	Forks         int
	Funcs         map[string]bool
	MaxDepth      int
	ReachWitness  int
	AssertIDs     map[string]int
	SolverRouted  int
	Allocs        int
	RewriteChecks int
	BoundCuts     int
	LemmaQueries  int
	ModelHits     int
	Probed        int
	ByteDecided   int
	ForkSites     map[string]int
}

type Options struct {
	LoopBudget    int
	InstrBudget   int64
	AllocLimit    int64 // bytes
	EnumCap       int   // max values enumerated when concretising
	TimeoutMs     int
	MaxPaths      int
	Trace         bool
	SolverKind    string
	PermuteMaps   bool
	CallDepth     int
	FuncBudgetS   float64 // wall-clock budget per harness function (0 = none)
	NoByteDomain  bool    // send single-byte feasibility questions to the solver too
	SolverLog     string
	CheckRewrites bool
	// Path-space sharding: with ShardN > 1 this engine explores only the paths
	// whose first ShardDepth decisions hash to ShardI (mod ShardN); paths with
	// fewer decisions are explored by every shard.
	ShardN, ShardI, ShardDepth int
}

type Engine struct {
	Prog    *ssa.Program
	Opt     Options
	S       *smt.Solver
	S2      *smt.Solver // cvc5-int for mul/div obligations (lazy)
	Stats   Stats
	Viol    map[string]*Violation
	VOrder  []string
	Witness [][]uint64 // replay scripts of completed paths (first few)

	// per path
	trace     []decision
	tpos      int
	sdepth    int // number of decisions whose constraint is on the solver stack
	pc        []*term.Term
	pcLits    map[*term.Term]bool
	byteDom   map[*term.Term]*[4]uint64        // per 8-bit variable: values allowed by the single-variable conjuncts of the path condition
	entangled map[*term.Term]bool              // variables that occur in a conjunct together with another variable
	mdl       map[string]uint64                // a model of the current path condition (nil = none cached)
	altMdl    map[*term.Term]map[string]uint64 // models found for alternatives not (yet) taken
	mdlMemo   map[*term.Term]uint64
	nondets   []nondetRec
	notes     []string
	undo      []undoRec
	nextObj   int
	baseObj   int
	nondetSeq int
	instrs    int64
	depth     int
	permute   bool
	loopBud   int
	allocLim  int64
	enumBound int
	inBase    bool
	tags      map[string]bool

	constCache   map[*ssa.Const]Value
	globals      map[*ssa.Global]*Object
	finfo        map[*ssa.Function]*funcInfo
	intrinsic    map[string]intrinsicFn
	initDone     map[*ssa.Package]bool
	curFn        []*ssa.Function
	curPos       []ssa.Instruction
	fset         posResolver
	srcCache     map[string][]string
	lastModel    map[string]uint64
	forced       map[string]uint64 // a concrete model found by probing (used instead of asking the solver)
	InitWarnings []string
	MaxWitness   int
	lemmaCache   map[string]bool
	rwSeen       map[[2]int]bool
	rwQueue      [][2]*term.Term
}

type posResolver interface {
	Position(p interface{}) string
}

func New(prog *ssa.Program, opt Options) (*Engine, error) {
	if opt.LoopBudget == 0 {
		opt.LoopBudget = 4096
	}
	if opt.InstrBudget == 0 {
		opt.InstrBudget = 50_000_000
	}
	if opt.AllocLimit == 0 {
		opt.AllocLimit = 1 << 16
	}
	if opt.EnumCap == 0 {
		opt.EnumCap = 300
	}
	if opt.TimeoutMs == 0 {
		opt.TimeoutMs = 20000
	}
	if opt.SolverKind == "" {
		opt.SolverKind = os.Getenv("GOSYM_SOLVER")
	}
	if opt.SolverKind == "" {
		// z3 5.1.0 (z3-new) is the main solver: 4.8.12 rebuilds every live
		// define-fun on each get-value (0.3 s per call with 6000 definitions).
		// GOSYM_SOLVER=z3 selects 4.8.12 for cross-checking.
		opt.SolverKind = "z3-new"
		if _, err := exec.LookPath("z3-new"); err != nil {
			opt.SolverKind = "z3"
		}
	}
	if opt.CallDepth == 0 {
		opt.CallDepth = 400
	}
	if os.Getenv("GOSYM_NO_BYTE_DOMAIN") != "" {
		opt.NoByteDomain = true
	}
	s, err := smt.New(opt.SolverKind, opt.TimeoutMs)
	if err != nil {
		return nil, err
	}
	if opt.SolverLog == "" {
		opt.SolverLog = os.Getenv("GOSYM_SOLVER_LOG")
	}
	if opt.SolverLog != "" {
		f, err := os.Create(opt.SolverLog)
		if err == nil {
			s.Log = f
		}
	}
	e := &Engine{Prog: prog, Opt: opt, S: s,
		Viol:       map[string]*Violation{},
		constCache: map[*ssa.Const]Value{},
		globals:    map[*ssa.Global]*Object{},
		finfo:      map[*ssa.Function]*funcInfo{},
		initDone:   map[*ssa.Package]bool{},
		srcCache:   map[string][]string{},
		rwSeen:     map[[2]int]bool{},
		lemmaCache: map[string]bool{},
		intrinsic:  map[string]intrinsicFn{},
	}
	e.Stats.PathsByEnd = map[string]int{}
	e.Stats.InconReasons = map[string]int{}
	e.Stats.Funcs = map[string]bool{}
	e.Stats.AssertIDs = map[string]int{}
	e.registerIntrinsics()
	if opt.CheckRewrites {
		term.RewriteHook = func(raw, res *term.Term) {
			k := [2]int{raw.ID, res.ID}
			if !e.rwSeen[k] {
				e.rwSeen[k] = true
				e.rwQueue = append(e.rwQueue, [2]*term.Term{raw, res})
			}
		}
	}
	return e, nil
}

func (e *Engine) maxWitness() int {
	if e.MaxWitness > 0 {
		return e.MaxWitness
	}
	return 3
}

// ResetStats clears per-run statistics, violations and witnesses.
func (e *Engine) ResetStats() {
	e.Stats = Stats{PathsByEnd: map[string]int{}, InconReasons: map[string]int{}, Funcs: map[string]bool{}, AssertIDs: map[string]int{}}
	e.Viol = map[string]*Violation{}
	e.VOrder = nil
	e.Witness = nil
}

func (e *Engine) Close() {
	e.S.Close()
	if e.S2 != nil {
		e.S2.Close()
	}
}

// InitPackages runs the package initialisers of the given packages (in the
// given order) concretely; objects created are marked Base.
func (e *Engine) InitPackages(pkgs []*ssa.Package) error {
	e.inBase = true
	defer func() { e.inBase = false }()
	for _, p := range pkgs {
		if err := e.initPackage(p); err != nil {
			return err
		}
	}
	e.baseObj = e.nextObj
	return nil
}

func (e *Engine) initPackage(p *ssa.Package) (err error) {
	if e.initDone[p] {
		return nil
	}
	e.initDone[p] = true
	fn := p.Func("init")
	if fn == nil {
		return nil
	}
	defer func() {
		if r := recover(); r != nil {
			switch x := r.(type) {
			case pathEnd:
				err = fmt.Errorf("init of %s: %s (%s)", p.Pkg.Path(), x.msg, x.site)
			case internalErr:
				err = fmt.Errorf("init of %s: internal: %s at %s", p.Pkg.Path(), x.msg, e.where())
			default:
				panic(r)
			}
		}
	}()
	e.loopBud = 1 << 30
	e.instrs = 0
	e.callFunction(fn, nil)
	return nil
}

// ---------- DFS driver ----------

// Run explores all paths of the harness function fn (no parameters).
func (e *Engine) Run(fn *ssa.Function) {
	e.trace = e.trace[:0]
	e.S.PopTo(0)
	e.sdepth = 0
	if e.S.NumDefined() > 0 {
		// definitions left at depth 0 by an earlier function make every later
		// model extraction slower (z3 4.8 rebuilds them per get-value): start
		// each function on a fresh solver process
		if s, err := smt.New(e.Opt.SolverKind, e.Opt.TimeoutMs); err == nil {
			s.Stats, s.Log = e.S.Stats, e.S.Log
			e.S.Close()
			e.S = s
		}
	}
	start := time.Now()
	for {
		e.runOnePath(fn)
		e.Stats.Paths++
		if e.Opt.FuncBudgetS > 0 && time.Since(start).Seconds() > e.Opt.FuncBudgetS {
			e.inconclusive("time-budget-exceeded")
			break
		}
		if e.Opt.MaxPaths > 0 && e.Stats.Paths >= e.Opt.MaxPaths {
			e.inconclusive("max-paths")
			break
		}
		// backtrack
		for len(e.trace) > 0 && e.trace[len(e.trace)-1].cur >= e.trace[len(e.trace)-1].n-1 {
			e.trace = e.trace[:len(e.trace)-1]
		}
		if len(e.trace) == 0 {
			break
		}
		e.trace[len(e.trace)-1].cur++
		keep := len(e.trace) - 1
		if e.sdepth > keep {
			e.sdepth = keep
		}
		e.S.PopTo(e.sdepth)
	}
	e.S.PopTo(0)
	e.sdepth = 0
	if e.Opt.CheckRewrites {
		e.checkRewrites()
	}
}

func (e *Engine) inconclusive(reason string) {
	e.Stats.Inconclusive++
	e.Stats.InconReasons[reason]++
}

func (e *Engine) resetPath() {
	// roll back base-object mutations
	for i := len(e.undo) - 1; i >= 0; i-- {
		u := e.undo[i]
		if u.m != nil {
			u.m.Entries = u.ents
			continue
		}
		if len(u.path) == 0 {
			u.obj.Root = u.old
		} else {
			n := u.obj.Root
			for _, ix := range u.path[:len(u.path)-1] {
				n = child(n, ix)
			}
			setChild(n, u.path[len(u.path)-1], u.old)
		}
	}
	e.undo = e.undo[:0]
	e.tpos = 0
	e.pc = e.pc[:0]
	e.pcLits = map[*term.Term]bool{}
	e.byteDom = map[*term.Term]*[4]uint64{}
	e.entangled = map[*term.Term]bool{}
	e.mdl = nil
	e.altMdl = map[*term.Term]map[string]uint64{}
	e.nondets = e.nondets[:0]
	e.notes = e.notes[:0]
	e.nextObj = e.baseObj
	e.nondetSeq = 0
	e.instrs = 0
	e.depth = 0
	e.permute = e.Opt.PermuteMaps
	e.loopBud = e.Opt.LoopBudget
	e.allocLim = e.Opt.AllocLimit
	e.enumBound = e.Opt.EnumCap
	e.curFn = e.curFn[:0]
	e.curPos = e.curPos[:0]
	e.tags = nil
}

func (e *Engine) runOnePath(fn *ssa.Function) {
	e.resetPath()
	end := pathEnd{kind: endNormal}
	func() {
		defer func() {
			if r := recover(); r != nil {
				switch x := r.(type) {
				case pathEnd:
					end = x
				case internalErr:
					end = pathEnd{kind: endInconclusive, msg: "internal: " + x.msg, site: e.where()}
				default:
					panic(r)
				}
			}
		}()
		e.callFunction(fn, nil)
	}()
	e.Stats.Instrs += e.instrs
	if e.S.Dead {
		// the solver was killed on a runaway query: restart it; the decision
		// prefix is re-asserted lazily by the next replay
		e.inconclusive("solver-killed-after-timeout")
		e.S.Close()
		if s, err := smt.New(e.Opt.SolverKind, e.Opt.TimeoutMs); err == nil {
			e.S = s
		}
		e.sdepth = 0
		if end.kind == endNormal {
			end.kind = endInconclusive
			end.msg = "solver-killed"
		}
	}
	if e.S2 != nil && e.S2.Dead {
		e.inconclusive("solver2-killed-after-timeout")
		e.S2.Close()
		e.S2 = nil
	}
	if len(e.trace) > e.Stats.MaxDepth {
		e.Stats.MaxDepth = len(e.trace)
	}
	switch end.kind {
	case endNormal:
		e.Stats.PathsByEnd["normal"]++
		if len(e.Witness) < e.maxWitness() {
			if sc, ok := e.model(); ok {
				e.Witness = append(e.Witness, sc)
			}
		}
	case endPanic:
		e.Stats.PathsByEnd["panic"]++
		e.recordViolation("panic", panicClass(end.msg), end.site, end.msg)
	case endInfeasible:
		e.Stats.PathsByEnd["infeasible"]++
	case endRunaway:
		e.Stats.PathsByEnd["runaway"]++
		e.recordViolation("runaway", end.msg, end.site, end.msg)
	case endInconclusive:
		e.Stats.PathsByEnd["inconclusive"]++
		e.inconclusive(end.msg)
		if e.Opt.Trace {
			fmt.Fprintf(os.Stderr, "inconclusive: %s at %s\n", end.msg, end.site)
		}
	case endAbandon:
		e.Stats.PathsByEnd["abandoned"]++
	case endBoundCut:
		e.Stats.PathsByEnd["bound-cut"]++
		e.Stats.BoundCuts++
	case endOtherShard:
		e.Stats.OtherShard++
		e.Stats.Paths-- // not a path of this shard
	}
}

func panicClass(msg string) string {
	for _, k := range []string{"index out of range", "slice bounds out of range", "nil pointer dereference", "nil map", "divide by zero", "negative shift", "type assertion", "makeslice", "explicit"} {
		if strings.Contains(msg, k) {
			return k
		}
	}
	return msg
}

func (e *Engine) where() string {
	if len(e.curPos) == 0 {
		return "?"
	}
	for i := len(e.curPos) - 1; i >= 0; i-- {
		ins := e.curPos[i]
		if ins == nil {
			continue
		}
		if p := ins.Pos(); p.IsValid() {
			pos := e.Prog.Fset.Position(p)
			return fmt.Sprintf("%s:%d", pos.Filename, pos.Line)
		}
		if i == len(e.curPos)-1 {
			// try to find a position among neighbours in the block
			if b := ins.Block(); b != nil {
				for _, o := range b.Instrs {
					if p := o.Pos(); p.IsValid() {
						pos := e.Prog.Fset.Position(p)
						return fmt.Sprintf("%s:%d~", pos.Filename, pos.Line)
					}
				}
			}
		}
	}
	return "?"
}

func (e *Engine) whereFunc() string {
	if len(e.curFn) == 0 {
		return "?"
	}
	return e.curFn[len(e.curFn)-1].String()
}

// ---------- solver interaction ----------

// ensureStack pushes the constraint of the current decision if it is not on
// the solver stack yet.
func (e *Engine) assertDecision(idx int, c *term.Term) {
	if idx >= e.sdepth {
		if idx != e.sdepth {
			panic(internalf("assertDecision: idx %d sdepth %d", idx, e.sdepth))
		}
		e.S.Push()
		if !c.IsTrue() {
			e.S.Assert(c)
		}
		e.sdepth++
	}
	if e.Opt.ShardN > 1 && idx == e.Opt.ShardDepth-1 {
		h := uint64(1469598103934665603)
		for i := 0; i <= idx; i++ {
			d := &e.trace[i]
			h = (h ^ (d.alts[d.cur] + 0x9e37)) * 1099511628211
			h ^= h >> 29
		}
		if int(h%uint64(e.Opt.ShardN)) != e.Opt.ShardI {
			panic(pathEnd{kind: endOtherShard})
		}
	}
}

// addPC records a path-condition conjunct and its literals.
// soleByteVar returns the variable of c if c mentions exactly one variable
// and that variable is at most 8 bits wide.
func soleByteVar(c *term.Term) (*term.Term, int) {
	set := map[*term.Term]bool{}
	c.Vars(set, map[*term.Term]bool{})
	if len(set) != 1 {
		return nil, len(set)
	}
	for v := range set {
		if v.W >= 1 && v.W <= 8 {
			return v, 1
		}
	}
	return nil, 1
}

func (e *Engine) domOf(v *term.Term) *[4]uint64 {
	d := e.byteDom[v]
	if d == nil {
		d = &[4]uint64{}
		for i := 0; i < 1<<uint(v.W); i++ {
			d[i/64] |= 1 << uint(i%64)
		}
		e.byteDom[v] = d
	}
	return d
}

// noteDomain maintains the exact value set of byte variables that are only
// constrained on their own; a conjunct over several variables entangles them
// and hands them back to the solver.
func (e *Engine) noteDomain(c *term.Term) {
	v, n := soleByteVar(c)
	if v == nil {
		if n > 1 {
			set := map[*term.Term]bool{}
			c.Vars(set, map[*term.Term]bool{})
			for x := range set {
				e.entangled[x] = true
			}
		}
		return
	}
	if e.entangled[v] {
		return
	}
	d := e.domOf(v)
	env := map[string]uint64{}
	for i := 0; i < 1<<uint(v.W); i++ {
		if d[i/64]&(1<<uint(i%64)) == 0 {
			continue
		}
		env[v.Name] = uint64(i)
		if term.Eval(c, env, map[*term.Term]uint64{}) != 1 {
			d[i/64] &^= 1 << uint(i%64)
		}
	}
}

// byteFeasible decides feasibility of c by enumeration when c only mentions
// one un-entangled byte variable (exact: the rest of the path condition is
// satisfiable independently of that variable).
func (e *Engine) byteFeasible(c *term.Term) (bool, bool) {
	v, _ := soleByteVar(c)
	if v == nil || e.entangled[v] {
		return false, false
	}
	d := e.domOf(v)
	env := map[string]uint64{}
	for i := 0; i < 1<<uint(v.W); i++ {
		if d[i/64]&(1<<uint(i%64)) == 0 {
			continue
		}
		env[v.Name] = uint64(i)
		if term.Eval(c, env, map[*term.Term]uint64{}) == 1 {
			return true, true
		}
	}
	return false, true
}

func (e *Engine) addPC(c *term.Term) {
	e.pc = append(e.pc, c)
	e.noteLit(c, true, 0)
	e.noteDomain(c)
	// keep a cached model only if it still satisfies the path condition
	if e.mdl != nil && !e.evalUnder(e.mdl, c) {
		e.mdl = nil
	}
	if e.mdl == nil {
		if m, ok := e.altMdl[c]; ok {
			e.mdl = m
		}
	}
	if len(e.altMdl) > 0 {
		e.altMdl = map[*term.Term]map[string]uint64{}
	}
}

func (e *Engine) evalUnder(m map[string]uint64, c *term.Term) bool {
	return term.Eval(c, m, map[*term.Term]uint64{}) == 1
}

func (e *Engine) noteLit(c *term.Term, val bool, depth int) {
	if c.IsConst() || depth > 64 {
		return
	}
	e.pcLits[c] = val
	switch {
	case c.Op == term.OpNot:
		e.noteLit(c.A, !val, depth+1)
	case c.Op == term.OpAnd && val:
		e.noteLit(c.A, true, depth+1)
		e.noteLit(c.B, true, depth+1)
	case c.Op == term.OpOr && !val:
		e.noteLit(c.A, false, depth+1)
		e.noteLit(c.B, false, depth+1)
	}
}

// reduce simplifies a boolean term under the literals already on the path
// condition (sound: it only replaces subterms the path condition fixes).
func (e *Engine) reduce(c *term.Term, depth int) *term.Term {
	if c.IsConst() || c.W != 0 {
		return c
	}
	if v, ok := e.pcLits[c]; ok {
		return term.Bool(v)
	}
	if depth > 64 {
		return c
	}
	switch c.Op {
	case term.OpNot:
		r := e.reduce(c.A, depth+1)
		if r != c.A {
			return term.Not(r)
		}
	case term.OpAnd:
		a, b := e.reduce(c.A, depth+1), e.reduce(c.B, depth+1)
		if a != c.A || b != c.B {
			return term.And(a, b)
		}
	case term.OpOr:
		a, b := e.reduce(c.A, depth+1), e.reduce(c.B, depth+1)
		if a != c.A || b != c.B {
			return term.Or(a, b)
		}
	}
	return c
}

func (e *Engine) feasible(c *term.Term) (bool, bool) {
	c = e.reduce(c, 0)
	if c.IsTrue() {
		return true, true
	}
	if c.IsFalse() {
		return false, true
	}
	if e.sdepth != len(e.trace) {
		panic(internalf("feasible: solver stack %d behind trace %d", e.sdepth, len(e.trace)))
	}
	if e.mdl != nil && !c.HasMul && e.evalUnder(e.mdl, c) {
		e.Stats.ModelHits++
		return true, true
	}
	if !e.Opt.NoByteDomain {
		if ok, decided := e.byteFeasible(c); decided {
			e.Stats.ByteDecided++
			return ok, true
		}
	}
	r := e.checkWith(c)
	switch r {
	case smt.Sat:
		if e.lastModel != nil {
			e.altMdl[c] = e.lastModel
			if e.mdl == nil {
				// also a model of the current path condition
				e.mdl = e.lastModel
			}
			e.lastModel = nil
		}
		return true, true
	case smt.Unsat:
		return false, true
	}
	return true, false
}

// checkWith decides satisfiability of the path condition plus c. Queries that
// involve multiplication or division (the date kernels x*100, x/100) go to
// cvc5 with integer blasting, which decides them in milliseconds where
// bit-blasting does not finish; everything else goes to the incremental z3.
func (e *Engine) checkWith(c *term.Term) smt.Result {
	mul := c.HasMul
	if !mul {
		for _, p := range e.pc {
			if p.HasMul {
				mul = true
				break
			}
		}
	}
	e.lastModel = nil
	if !mul {
		e.S.Predefine(c)
		e.S.Push()
		e.S.Assert(c)
		r := e.S.Check()
		if r == smt.Sat {
			// fetch the model: it lets later feasibility questions be answered by evaluation
			var ts []*term.Term
			for _, n := range e.nondets {
				if n.isSym {
					ts = append(ts, n.t)
				}
			}
			if len(ts) <= 64 {
				if vals, err := e.S.Values(ts); err == nil {
					m := make(map[string]uint64, len(ts))
					for t, v := range vals {
						m[t.Name] = v
					}
					e.lastModel = m
				}
			}
		}
		e.S.Pop()
		if r != smt.Unknown {
			return r
		}
	}
	if e.S2 == nil {
		s2, err := smt.New("cvc5-int", e.Opt.TimeoutMs)
		if err != nil {
			return smt.Unknown
		}
		e.S2 = s2
	}
	e.Stats.SolverRouted++
	if e.Stats.SolverRouted == 1 && os.Getenv("GOSYM_DEBUG_ROUTE") != "" {
		culprit := c
		for _, p := range e.pc {
			if p.HasMul {
				culprit = p
				break
			}
		}
		fmt.Fprintf(os.Stderr, "first routed query at %s: %v\n", e.where(), culprit)
	}
	e.S2.Push()
	for _, p := range e.pc {
		e.S2.Assert(p)
	}
	e.S2.Assert(c)
	r2 := e.S2.Check()
	e.S2.Pop()
	return r2
}

// fork chooses among alternative constraints. Returns the index chosen.
func (e *Engine) fork(alts []*term.Term) int {
	ra := make([]*term.Term, len(alts))
	for i, a := range alts {
		ra[i] = e.reduce(a, 0)
	}
	alts = ra
	// fast path: constants
	nonFalse := -1
	cnt := 0
	for i, a := range alts {
		if a.IsTrue() {
			return i
		}
		if !a.IsFalse() {
			nonFalse = i
			cnt++
		}
	}
	if cnt == 0 {
		panic(pathEnd{kind: endInfeasible, msg: "no alternative"})
	}
	_ = nonFalse
	if e.tpos < len(e.trace) {
		d := &e.trace[e.tpos]
		if d.kind != 'f' {
			panic(internalf("replay divergence: expected fork, trace has %c", d.kind))
		}
		ch := int(d.alts[d.cur])
		e.assertDecision(e.tpos, alts[ch])
		e.addPC(alts[ch])
		e.tpos++
		return ch
	}
	var feas []uint64
	for i, a := range alts {
		if a.IsFalse() {
			continue
		}
		ok, sure := e.feasible(a)
		if !sure {
			e.inconclusive("solver-unknown-branch")
		}
		if ok {
			feas = append(feas, uint64(i))
		}
	}
	if len(feas) == 0 {
		panic(pathEnd{kind: endInfeasible, msg: "no feasible alternative"})
	}
	if len(feas) > 1 {
		e.Stats.Forks++
		if e.Stats.ForkSites != nil {
			e.Stats.ForkSites[e.where()]++
		}
	}
	e.trace = append(e.trace, decision{n: len(feas), alts: feas, kind: 'f'})
	ch := int(feas[0])
	e.assertDecision(e.tpos, alts[ch])
	e.addPC(alts[ch])
	e.tpos++
	return ch
}

// branch decides a boolean condition.
func (e *Engine) branch(c *term.Term) bool {
	c = e.reduce(c, 0)
	if c.IsTrue() {
		return true
	}
	if c.IsFalse() {
		return false
	}
	if e.tpos < len(e.trace) {
		d := &e.trace[e.tpos]
		if d.kind != 'f' {
			panic(internalf("replay divergence: expected branch, trace has %c", d.kind))
		}
		ch := d.alts[d.cur]
		con := c
		if ch == 1 {
			con = term.Not(c)
		}
		e.assertDecision(e.tpos, con)
		e.addPC(con)
		e.tpos++
		return ch == 0
	}
	var feas []uint64
	okT, sureT := e.feasible(c)
	if !sureT {
		e.inconclusive("solver-unknown-branch")
	}
	if okT {
		feas = append(feas, 0)
		okF, sureF := e.feasible(term.Not(c))
		if !sureF {
			e.inconclusive("solver-unknown-branch")
		}
		if okF {
			feas = append(feas, 1)
		}
	} else {
		feas = append(feas, 1)
	}
	if len(feas) > 1 {
		e.Stats.Forks++
		if e.Stats.ForkSites != nil {
			e.Stats.ForkSites[e.where()]++
		}
	}
	e.trace = append(e.trace, decision{n: len(feas), alts: feas, kind: 'f'})
	con := c
	if feas[0] == 1 {
		con = term.Not(c)
	}
	e.assertDecision(e.tpos, con)
	e.addPC(con)
	e.tpos++
	return feas[0] == 0
}

// assume adds a constraint; ends the path if it is infeasible.
func (e *Engine) assume(c *term.Term) {
	c = e.reduce(c, 0)
	if c.IsTrue() {
		return
	}
	if c.IsFalse() {
		panic(pathEnd{kind: endInfeasible, msg: "assume(false)"})
	}
	if e.tpos < len(e.trace) {
		d := &e.trace[e.tpos]
		if d.kind != 'f' {
			panic(internalf("replay divergence: expected assume, trace has %c", d.kind))
		}
		e.assertDecision(e.tpos, c)
		e.addPC(c)
		e.tpos++
		return
	}
	ok, sure := e.feasible(c)
	if !sure {
		e.inconclusive("solver-unknown-assume")
	}
	if !ok {
		panic(pathEnd{kind: endInfeasible, msg: "assume"})
	}
	e.trace = append(e.trace, decision{n: 1, alts: []uint64{0}, kind: 'f'})
	e.assertDecision(e.tpos, c)
	e.addPC(c)
	e.tpos++
}

// choose forks over the integers lo..hi (no constraint).
func (e *Engine) choose(lo, hi int) int {
	if hi < lo {
		panic(pathEnd{kind: endInfeasible, msg: "choose: empty range"})
	}
	if lo == hi {
		return lo
	}
	if e.tpos < len(e.trace) {
		d := &e.trace[e.tpos]
		if d.kind != 'k' {
			panic(internalf("replay divergence: expected choose, trace has %c", d.kind))
		}
		e.assertDecision(e.tpos, term.True)
		e.tpos++
		return int(int64(d.alts[d.cur]))
	}
	var alts []uint64
	for i := lo; i <= hi; i++ {
		alts = append(alts, uint64(int64(i)))
	}
	e.Stats.Forks++
	if e.Stats.ForkSites != nil {
		e.Stats.ForkSites[e.where()+" (choose)"]++
	}
	e.trace = append(e.trace, decision{n: len(alts), alts: alts, kind: 'k'})
	e.assertDecision(e.tpos, term.True)
	e.tpos++
	return lo
}

// concretize enumerates the feasible values of a bit-vector term (at most
// Opt.EnumCap of them) and forks over them. signed selects how the value is
// returned.
func (e *Engine) concretize(t *term.Term, signed bool, what string) int64 {
	if t.IsConst() {
		if signed {
			return t.SignedVal()
		}
		return int64(t.Val)
	}
	// values beyond the enumeration bound are outside the explored space: the
	// path that takes them is cut and counted (never reported as a pass)
	if e.enumBound > 0 && t.W > 1 {
		over := term.Cmp(term.OpUlt, term.Const(t.W, uint64(e.enumBound)), t)
		if signed {
			// negative values are handled by callers as out-of-range; treat as over
			over = term.Or(over, term.Cmp(term.OpSlt, t, term.Const(t.W, 0)))
		}
		if e.fork([]*term.Term{term.Not(over), over}) == 1 {
			panic(pathEnd{kind: endBoundCut, msg: "enumeration bound exceeded: " + what, site: e.where()})
		}
	}
	return e.concretizeNoBound(t, signed, what)
}

func (e *Engine) concretizeNoBound(t *term.Term, signed bool, what string) int64 {
	conv := func(v uint64) int64 {
		if signed {
			return term.Const(t.W, v).SignedVal()
		}
		return int64(v)
	}
	if e.tpos < len(e.trace) {
		d := &e.trace[e.tpos]
		if d.kind != 'c' {
			panic(internalf("replay divergence: expected concretize, trace has %c", d.kind))
		}
		v := d.alts[d.cur]
		c := term.Eq(t, term.Const(t.W, v))
		e.assertDecision(e.tpos, c)
		e.addPC(c)
		e.tpos++
		return conv(v)
	}
	if e.sdepth != len(e.trace) {
		panic(internalf("concretize: solver stack behind"))
	}
	var vals []uint64
	e.S.Push()
	for {
		r := e.S.Check()
		if r == smt.Unsat {
			break
		}
		if r != smt.Sat {
			e.S.Pop()
			panic(pathEnd{kind: endInconclusive, msg: "solver-unknown-concretize:" + what, site: e.where()})
		}
		m, err := e.S.Values([]*term.Term{t})
		if err != nil {
			e.S.Pop()
			panic(pathEnd{kind: endInconclusive, msg: "model-error:" + err.Error(), site: e.where()})
		}
		v := m[t]
		vals = append(vals, v)
		if len(vals) > e.Opt.EnumCap {
			e.S.Pop()
			panic(pathEnd{kind: endInconclusive, msg: "too-many-values:" + what, site: e.where()})
		}
		e.S.Assert(term.Ne(t, term.Const(t.W, v)))
	}
	e.S.Pop()
	if len(vals) == 0 {
		panic(pathEnd{kind: endInfeasible, msg: "concretize: no value"})
	}
	sort.Slice(vals, func(i, j int) bool { return vals[i] < vals[j] })
	if len(vals) > 1 {
		e.Stats.Forks++
		if e.Stats.ForkSites != nil {
			e.Stats.ForkSites[e.where()+" (concretize "+what+")"]++
		}
	}
	e.trace = append(e.trace, decision{n: len(vals), alts: vals, kind: 'c'})
	c := term.Eq(t, term.Const(t.W, vals[0]))
	e.assertDecision(e.tpos, c)
	e.addPC(c)
	e.tpos++
	return conv(vals[0])
}

// model returns the replay script of the current path (values of all nondet
// calls in order) if the path condition is satisfiable.
func (e *Engine) model(extra ...*term.Term) ([]uint64, bool) {
	if e.forced != nil {
		var sc []uint64
		for _, n := range e.nondets {
			if n.isSym {
				sc = append(sc, e.forced[n.t.Name])
			} else {
				sc = append(sc, n.cval)
			}
		}
		return sc, true
	}
	if e.sdepth != len(e.trace) {
		return nil, false
	}
	var ts []*term.Term
	for _, n := range e.nondets {
		if n.isSym {
			ts = append(ts, n.t)
		}
	}
	useS2 := false
	for _, p := range e.pc {
		if p.HasMul {
			useS2 = true
		}
	}
	for _, x := range extra {
		if x.HasMul {
			useS2 = true
		}
	}
	if useS2 {
		if e.S2 == nil {
			if s2, err := smt.New("cvc5-int", e.Opt.TimeoutMs); err == nil {
				e.S2 = s2
			}
		}
		if e.S2 != nil {
			return e.modelS2(extra...)
		}
	}
	e.S.Push()
	defer e.S.Pop()
	for _, x := range extra {
		e.S.Assert(x)
	}
	r := e.S.Check()
	if r != smt.Sat {
		if r == smt.Unknown && e.S2 != nil {
			return e.modelS2(extra...)
		}
		return nil, false
	}
	m, err := e.S.Values(ts)
	if err != nil {
		return nil, false
	}
	var sc []uint64
	for _, n := range e.nondets {
		if n.isSym {
			sc = append(sc, m[n.t])
		} else {
			sc = append(sc, n.cval)
		}
	}
	return sc, true
}

func (e *Engine) modelS2(extra ...*term.Term) ([]uint64, bool) {
	var ts []*term.Term
	for _, n := range e.nondets {
		if n.isSym {
			ts = append(ts, n.t)
		}
	}
	e.S2.Push()
	defer e.S2.Pop()
	for _, p := range e.pc {
		e.S2.Assert(p)
	}
	for _, x := range extra {
		e.S2.Assert(x)
	}
	if e.S2.Check() != smt.Sat {
		return nil, false
	}
	m, err := e.S2.Values(ts)
	if err != nil {
		return nil, false
	}
	var sc []uint64
	for _, n := range e.nondets {
		if n.isSym {
			sc = append(sc, m[n.t])
		} else {
			sc = append(sc, n.cval)
		}
	}
	return sc, true
}

func (e *Engine) recordViolation(kind, id, site, detail string, extra ...*term.Term) {
	v := &Violation{Kind: kind, ID: id, Site: site, Func: e.whereFunc(), Detail: detail, Count: 1}
	v.Stmt = e.stmtAt(site)
	for i := len(e.curFn) - 1; i >= 0 && len(v.Stack) < 12; i-- {
		f := Frame{Func: e.curFn[i].String()}
		if i < len(e.curPos) && e.curPos[i] != nil {
			if p := e.curPos[i].Pos(); p.IsValid() {
				pos := e.Prog.Fset.Position(p)
				f.Site = fmt.Sprintf("%s:%d", pos.Filename, pos.Line)
				f.Stmt = e.stmtAt(f.Site)
			}
		}
		v.Stack = append(v.Stack, f)
	}
	if i := strings.LastIndex(v.Func, "/"); i >= 0 {
		v.Func = v.Func[i+1:]
	}
	sig := v.Sig()
	if old, ok := e.Viol[sig]; ok {
		old.Count++
		if (kind == "runaway" || kind == "alloc") && len(old.Alt) < 6 {
			// keep a few more witnesses: which one manifests natively depends on how
			// large the offending count can be made on that path
			if sc, ok := e.maxModel(kind, extra); ok {
				old.Alt = append(old.Alt, sc)
			}
		}
		return
	}
	sc, ok := e.maxModel(kind, extra)
	if !ok {
		e.inconclusive("no-model-for-violation:" + kind)
		return
	}
	v.Script = sc
	v.Notes = append([]string(nil), e.notes...)
	e.Viol[sig] = v
	e.VOrder = append(e.VOrder, sig)
}

func (e *Engine) stmtAt(site string) string {
	site = strings.TrimSuffix(site, "~")
	i := strings.LastIndex(site, ":")
	if i < 0 {
		return ""
	}
	file := site[:i]
	var line int
	fmt.Sscanf(site[i+1:], "%d", &line)
	lines, ok := e.srcCache[file]
	if !ok {
		data, err := os.ReadFile(file)
		if err == nil {
			lines = strings.Split(string(data), "\n")
		}
		e.srcCache[file] = lines
	}
	if line <= 0 || line > len(lines) {
		return ""
	}
	return strings.TrimSpace(lines[line-1])
}

var probeVals = []uint64{0, 1, 2, 7, 8, 9, 99, 100, 101, 150, 255, 256, 999999999, 1000000000, 1000000001, 1<<31 - 1, 1 << 31, 1<<32 - 1, 1 << 32, 1<<63 - 1}

// probe searches for an assignment of the symbolic inputs that satisfies the
// path condition and goal, trying boundary values (and their negations) for
// one variable at a time with the others at 0, and for all variables at once.
func (e *Engine) probe(goal *term.Term) map[string]uint64 {
	var vars []*term.Term
	for _, n := range e.nondets {
		if n.isSym {
			vars = append(vars, n.t)
		}
	}
	if len(vars) == 0 || len(vars) > 64 {
		return nil
	}
	var cands []uint64
	for _, v := range probeVals {
		cands = append(cands, v, -v)
	}
	try := func(m map[string]uint64) bool {
		memo := map[*term.Term]uint64{}
		for _, p := range e.pc {
			if term.Eval(p, m, memo) != 1 {
				return false
			}
		}
		return term.Eval(goal, m, memo) == 1
	}
	for _, c := range cands {
		m := map[string]uint64{}
		for _, v := range vars {
			m[v.Name] = c
		}
		if try(m) {
			return m
		}
	}
	for _, pv := range vars {
		for _, c := range cands {
			m := map[string]uint64{}
			for _, v := range vars {
				m[v.Name] = 0
			}
			m[pv.Name] = c
			if try(m) {
				return m
			}
			// the others at 1 as well (0 is often excluded by an assumption)
			for _, v := range vars {
				if v != pv {
					m[v.Name] = 1
				}
			}
			if try(m) {
				return m
			}
		}
	}
	return nil
}

// maxModel returns a model of the path; for resource violations the symbolic
// inputs are greedily driven towards their largest values while the path
// stays feasible, so that the native replay manifests unmistakably.
func (e *Engine) maxModel(kind string, extra []*term.Term) ([]uint64, bool) {
	if kind == "runaway" || kind == "alloc" {
		for _, n := range e.nondets {
			if !n.isSym || n.t.W == 0 || len(extra) > 12 {
				continue
			}
			c := term.Eq(n.t, term.Const(n.t.W, ^uint64(0)))
			all := c
			for _, x := range extra {
				all = term.And(all, x)
			}
			if ok, sure := e.feasible(all); ok && sure {
				extra = append(extra, c)
			}
		}
	}
	return e.model(extra...)
}

// assertProp checks an assertion on the current path. Non-constant
// assertions leave an entry in the decision trace so that replays of the
// prefix do not query the solver again.
func (e *Engine) assertProp(id string, c *term.Term) {
	c = e.reduce(c, 0)
	replay := e.tpos < len(e.trace)
	if !replay {
		e.Stats.Obligations++
		e.Stats.AssertIDs[id]++
	}
	if c.IsTrue() {
		if !replay {
			e.Stats.ByRewriting++
		}
		return
	}
	if c.IsFalse() {
		e.recordViolation("assert", id, e.where(), "assertion "+id+" is false on this path")
		panic(pathEnd{kind: endAbandon})
	}
	if replay {
		d := &e.trace[e.tpos]
		if d.kind != 'a' {
			panic(internalf("replay divergence: expected assert, trace has %c", d.kind))
		}
		e.assertDecision(e.tpos, term.True)
		e.tpos++
		if d.alts[0] == 1 {
			e.assume(c)
		}
		return
	}
	if e.sdepth != len(e.trace) {
		panic(internalf("assert: solver stack behind"))
	}
	r := e.checkWith(term.Not(c))
	outcome := uint64(0)
	switch r {
	case smt.Unsat:
		e.Stats.BySolver++
	case smt.Sat:
		outcome = 1
		e.recordViolation("assert", id, e.where(), "assertion "+id+" can fail", term.Not(c))
	default:
		// the solver gave up: look for a witness among boundary values by plain
		// evaluation (sound for violations: the assignment is checked against the
		// whole path condition and the negated assertion; silent otherwise)
		if m := e.probe(term.Not(c)); m != nil {
			outcome = 1
			e.forced = m
			e.recordViolation("assert", id, e.where(), "assertion "+id+" can fail (witness found by evaluating boundary values after the solver returned unknown)")
			e.forced = nil
			e.Stats.Probed++
		} else {
			outcome = 2
			e.inconclusive("solver-unknown-assert:" + id)
		}
	}
	e.trace = append(e.trace, decision{n: 1, alts: []uint64{outcome}, kind: 'a'})
	e.assertDecision(e.tpos, term.True)
	e.tpos++
	if outcome == 1 {
		// continue under the assumption that it holds
		e.assume(c)
	}
}

func (e *Engine) checkRewrites() {
	old := term.RewriteHook
	term.RewriteHook = nil
	defer func() { term.RewriteHook = old }()
	neq := func(a, b *term.Term) *term.Term {
		// build the disequality without simplification
		saveS, saveR := term.Simplify, term.Rewrite
		term.Rewrite = false
		defer func() { term.Simplify, term.Rewrite = saveS, saveR }()
		return term.Not(term.Eq(a, b))
	}
	for _, p := range e.rwQueue {
		raw, res := p[0], p[1]
		e.Stats.RewriteChecks++
		// try the generalised lemma first (cached by its text)
		araw, ares := term.Abstract(raw, res, 3)
		key := araw.String() + " => " + ares.String()
		if ok, seen := e.lemmaCache[key]; seen && ok {
			continue
		} else if !seen {
			q := neq(araw, ares)
			proved := q.IsFalse() || e.S.CheckWith(q) == smt.Unsat
			e.lemmaCache[key] = proved
			e.Stats.LemmaQueries++
			if proved {
				continue
			}
		}
		// the generalisation lost something the rule depends on: check the instance
		q := neq(raw, res)
		e.Stats.LemmaQueries++
		if q.IsFalse() {
			continue
		}
		var r smt.Result
		if q.HasMul || q.MulC >= 2 {
			// products: integer blasting decides these, bit-blasting often does not
			if e.S2 == nil {
				if s2, err := smt.New("cvc5-int", e.Opt.TimeoutMs); err == nil {
					e.S2 = s2
				}
			}
			if e.S2 != nil {
				r = e.S2.CheckWith(q)
			}
		}
		if r != smt.Unsat {
			r = e.S.CheckWith(q)
		}
		if r != smt.Unsat {
			e.inconclusive(fmt.Sprintf("rewrite-check-%v: %v => %v", r, raw, res))
		}
	}
	e.rwQueue = nil
}

// ---------- nondet ----------

func (e *Engine) freshVar(kind string, w int) *term.Term {
	name := fmt.Sprintf("n%d_%s%d", e.nondetSeq, kind, w)
	e.nondetSeq++
	t := term.Var(name, w)
	e.nondets = append(e.nondets, nondetRec{t: t, isSym: true, kind: kind})
	return t
}

func (e *Engine) logConcrete(kind string, v uint64) {
	e.nondetSeq++
	e.nondets = append(e.nondets, nondetRec{cval: v, kind: kind})
}

// ---------- objects ----------

func (e *Engine) newObject(t types.Type, root Value, site string) *Object {
	o := &Object{ID: e.nextObj, Root: root, Typ: t, Base: e.inBase, Site: site}
	e.nextObj++
	return o
}

func (e *Engine) global(g *ssa.Global) *Object {
	if o, ok := e.globals[g]; ok {
		return o
	}
	t := g.Type().(*types.Pointer).Elem()
	o := &Object{ID: -len(e.globals) - 1, Root: zero(t), Typ: t, Base: true, Site: g.String()}
	e.globals[g] = o
	return o
}
