package interp

import (
	"fmt"
	"go/types"
	"strconv"

	"golang.org/x/tools/go/ssa"

	"gosym/term"
)

// A small in-engine model of fmt's formatting functions. Output text is an
// approximation (used only for error messages and diagnostics, which no
// assertion inspects); string operands keep their (possibly symbolic) bytes.

func (e *Engine) registerFmt() {
	in := e.intrinsic
	in["fmt.Sprintf"] = func(e *Engine, fn *ssa.Function, a []Value) Value {
		s, _ := e.sprintf(a[0].(StrV), e.variadic(a[1]))
		return s
	}
	in["fmt.Errorf"] = func(e *Engine, fn *ssa.Function, a []Value) Value {
		s, wrapped := e.sprintf(a[0].(StrV), e.variadic(a[1]))
		return e.makeError(s, wrapped)
	}
	in["fmt.Sprint"] = func(e *Engine, fn *ssa.Function, a []Value) Value {
		return e.sprint(e.variadic(a[0]), false)
	}
	in["fmt.Sprintln"] = func(e *Engine, fn *ssa.Function, a []Value) Value {
		return e.sprint(e.variadic(a[0]), true)
	}
	fpr := func(mk func(e *Engine, a []Value) StrV) intrinsicFn {
		return func(e *Engine, fn *ssa.Function, a []Value) Value {
			s := mk(e, a[1:])
			w := a[0].(IfaceV)
			if w.IsNil() {
				panic(pathEnd{kind: endPanic, msg: "nil pointer dereference (nil io.Writer)", site: e.where()})
			}
			m := e.lookupMethod(w.T, "Write")
			bs := e.convert(types.Typ[types.String], types.NewSlice(types.Typ[types.Uint8]), s)
			r := e.callFunction(m, []Value{w.V, bs}).(TupleV)
			return r
		}
	}
	in["fmt.Fprintf"] = fpr(func(e *Engine, a []Value) StrV {
		s, _ := e.sprintf(a[0].(StrV), e.variadic(a[1]))
		return s
	})
	in["fmt.Fprint"] = fpr(func(e *Engine, a []Value) StrV { return e.sprint(e.variadic(a[0]), false) })
	in["fmt.Fprintln"] = fpr(func(e *Engine, a []Value) StrV { return e.sprint(e.variadic(a[0]), true) })
	in["fmt.Println"] = func(e *Engine, fn *ssa.Function, a []Value) Value {
		return TupleV{i64c(0), IfaceV{}}
	}
	in["fmt.Printf"] = in["fmt.Println"]
	in["fmt.Print"] = in["fmt.Println"]
}

func (e *Engine) variadic(v Value) []Value {
	s := v.(SliceV)
	out := make([]Value, s.Len)
	if s.Len > 0 {
		arr := e.walk(s.Obj, s.Base).(*ArrayV)
		for i := range out {
			out[i] = arr.E[s.Off+i]
		}
	}
	return out
}

func (e *Engine) makeError(msg StrV, wrapped Value) Value {
	if w, ok := wrapped.(IfaceV); ok && !w.IsNil() {
		if p := e.Prog.ImportedPackage("fmt"); p != nil {
			if t := p.Type("wrapError"); t != nil {
				st := &StructV{F: []Value{msg, w}}
				o := e.newObject(t.Type(), st, "")
				return IfaceV{T: types.NewPointer(t.Type()), V: PtrV{Obj: o}}
			}
		}
	}
	return e.callFunction(e.pkgFunc("errors", "New"), []Value{msg})
}

func (e *Engine) sprint(args []Value, ln bool) StrV {
	var out []*term.Term
	for i, a := range args {
		if i > 0 && ln {
			out = append(out, term.Const(8, ' '))
		}
		out = append(out, e.render(a, 'v').B...)
	}
	if ln {
		out = append(out, term.Const(8, '\n'))
	}
	return StrV{B: out}
}

func (e *Engine) sprintf(f StrV, args []Value) (StrV, Value) {
	fs, ok := f.concrete()
	if !ok {
		return strConst("<symbolic format>"), nil
	}
	var out []*term.Term
	var wrapped Value
	ai := 0
	for i := 0; i < len(fs); i++ {
		c := fs[i]
		if c != '%' {
			out = append(out, term.Const(8, uint64(c)))
			continue
		}
		i++
		// flags / width / precision
		for i < len(fs) && (fs[i] == '+' || fs[i] == '-' || fs[i] == '#' || fs[i] == ' ' || fs[i] == '.' || (fs[i] >= '0' && fs[i] <= '9')) {
			i++
		}
		if i >= len(fs) {
			break
		}
		verb := fs[i]
		if verb == '%' {
			out = append(out, term.Const(8, '%'))
			continue
		}
		if ai >= len(args) {
			out = append(out, strConst("%!"+string(verb)+"(MISSING)").B...)
			continue
		}
		a := args[ai]
		ai++
		if verb == 'w' {
			wrapped = a
		}
		out = append(out, e.render(a, verb).B...)
	}
	return StrV{B: out}, wrapped
}

// render formats one operand (an interface value as passed to fmt).
func (e *Engine) render(a Value, verb byte) StrV {
	iv, ok := a.(IfaceV)
	if !ok {
		return strConst(fmt.Sprintf("<%T>", a))
	}
	if iv.IsNil() {
		return strConst("<nil>")
	}
	if verb == 'T' {
		return strConst(iv.T.String())
	}
	// error / Stringer
	if verb != 'd' && verb != 'x' && verb != 'c' {
		for _, mn := range []string{"Error", "String"} {
			if m := e.lookupMethod(iv.T, mn); m != nil && m.Signature.Params().Len() == 0 && m.Signature.Results().Len() == 1 && isString(m.Signature.Results().At(0).Type()) {
				if p, ok := iv.V.(PtrV); ok && p.IsNil() {
					return strConst("<nil>")
				}
				return e.callFunction(m, []Value{iv.V}).(StrV)
			}
		}
	}
	switch v := iv.V.(type) {
	case StrV:
		if verb == 'q' {
			out := []*term.Term{term.Const(8, '"')}
			out = append(out, v.B...)
			out = append(out, term.Const(8, '"'))
			return StrV{B: out}
		}
		return v
	case *term.Term:
		if !v.IsConst() {
			return strConst("<sym>")
		}
		if v.W == 0 {
			return strConst(strconv.FormatBool(v.Val != 0))
		}
		_, signed, _ := scalarWidth(iv.T)
		if isFloat(iv.T) {
			if v.W == 32 {
				return strConst(strconv.FormatFloat(float64(f32from(uint32(v.Val))), 'g', -1, 32))
			}
			return strConst(strconv.FormatFloat(f64from(v.Val), 'g', -1, 64))
		}
		switch verb {
		case 'x':
			return strConst(strconv.FormatUint(v.Val, 16))
		case 'c':
			return strConst(string(rune(v.Val)))
		case 'q':
			return strConst(strconv.QuoteRune(rune(v.Val)))
		}
		if signed {
			return strConst(strconv.FormatInt(v.SignedVal(), 10))
		}
		return strConst(strconv.FormatUint(v.Val, 10))
	case SliceV:
		if el, ok := iv.T.Underlying().(*types.Slice); ok {
			if b, ok := el.Elem().Underlying().(*types.Basic); ok && b.Kind() == types.Uint8 && (verb == 's' || verb == 'q') {
				return StrV{B: e.sliceBytes(v)}
			}
		}
	}
	return strConst(fmt.Sprintf("<%v>", iv.T))
}
