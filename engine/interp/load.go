package interp

import (
	"fmt"
	"os"
	"sort"
	"strings"

	"golang.org/x/tools/go/packages"
	"golang.org/x/tools/go/ssa"
	"golang.org/x/tools/go/ssa/ssautil"
)

type Loaded struct {
	Prog   *ssa.Program
	Pkgs   []*packages.Package
	All    []*ssa.Package      // dependency order (deps first)
	Errors map[string][]string // package path -> type errors
}

// Load loads packages (with dependencies) from dir and builds SSA.
func Load(dir string, overlay map[string][]byte, patterns ...string) (*Loaded, error) {
	cfg := &packages.Config{
		Mode:    packages.LoadAllSyntax,
		Dir:     dir,
		Overlay: overlay,
		Env:     append(os.Environ(), "GOFLAGS=-mod=mod", "GOPROXY=off", "GOSUMDB=off", "GOTOOLCHAIN=local"),
	}
	pkgs, err := packages.Load(cfg, patterns...)
	if err != nil {
		return nil, err
	}
	l := &Loaded{Pkgs: pkgs, Errors: map[string][]string{}}
	var good []*packages.Package
	for _, p := range pkgs {
		if len(p.Errors) > 0 || p.IllTyped {
			for _, e := range p.Errors {
				l.Errors[p.PkgPath] = append(l.Errors[p.PkgPath], e.Error())
			}
			if len(l.Errors[p.PkgPath]) == 0 {
				l.Errors[p.PkgPath] = []string{"ill-typed (error in a dependency)"}
			}
			continue
		}
		good = append(good, p)
	}
	prog, _ := ssautil.AllPackages(good, ssa.InstantiateGenerics)
	prog.Build()
	l.Prog = prog
	// dependency order
	seen := map[string]bool{}
	var visit func(p *packages.Package)
	visit = func(p *packages.Package) {
		if seen[p.PkgPath] {
			return
		}
		seen[p.PkgPath] = true
		var keys []string
		for k := range p.Imports {
			keys = append(keys, k)
		}
		sort.Strings(keys)
		for _, k := range keys {
			visit(p.Imports[k])
		}
		if sp := prog.Package(p.Types); sp != nil {
			l.All = append(l.All, sp)
		}
	}
	for _, p := range good {
		visit(p)
	}
	return l, nil
}

// InitAll runs the initialisers of all loaded packages that are not denied.
func (e *Engine) InitAll(l *Loaded) error {
	var ps []*ssa.Package
	for _, p := range l.All {
		if deniedInit(p.Pkg.Path()) {
			continue
		}
		ps = append(ps, p)
	}
	return e.InitPackages(ps)
}

// FindFunc resolves "pkgpath.Func".
func (l *Loaded) FindFunc(full string) (*ssa.Function, error) {
	i := strings.LastIndex(full, ".")
	if i < 0 {
		return nil, fmt.Errorf("bad function name %q", full)
	}
	pp, fn := full[:i], full[i+1:]
	for _, p := range l.All {
		if p.Pkg.Path() == pp {
			if f := p.Func(fn); f != nil {
				return f, nil
			}
			return nil, fmt.Errorf("no function %s in %s", fn, pp)
		}
	}
	return nil, fmt.Errorf("package %s not loaded", pp)
}
