package interp

import (
	"fmt"
	"go/token"
	"go/types"

	"golang.org/x/tools/go/ssa"

	"gosym/term"
)

func (e *Engine) binop(op token.Token, xt types.Type, xv, yv Value, yt types.Type) Value {
	switch x := xv.(type) {
	case *term.Term:
		y, ok := yv.(*term.Term)
		if !ok {
			panic(internalf("binop %v: %T vs %T", op, xv, yv))
		}
		return e.scalarBinop(op, xt, x, y, yt)
	case StrV:
		y := yv.(StrV)
		switch op {
		case token.ADD:
			b := make([]*term.Term, 0, len(x.B)+len(y.B))
			b = append(b, x.B...)
			b = append(b, y.B...)
			return StrV{B: b}
		case token.EQL:
			return e.strEq(x, y)
		case token.NEQ:
			return term.Not(e.strEq(x, y))
		case token.LSS:
			return e.strLess(x, y)
		case token.GTR:
			return e.strLess(y, x)
		case token.LEQ:
			return term.Not(e.strLess(y, x))
		case token.GEQ:
			return term.Not(e.strLess(x, y))
		}
	default:
		switch op {
		case token.EQL:
			return e.valEq(xv, yv)
		case token.NEQ:
			return term.Not(e.valEq(xv, yv))
		}
	}
	panic(internalf("unsupported binop %v on %T", op, xv))
}

// valEq is Go's == on non-scalar comparable values.
func (e *Engine) valEq(a, b Value) *term.Term {
	switch x := a.(type) {
	case *term.Term:
		return term.Eq(x, b.(*term.Term))
	case StrV:
		return e.strEq(x, b.(StrV))
	case PtrV:
		y := b.(PtrV)
		if x.IsNil() || y.IsNil() {
			return term.Bool(x.IsNil() && y.IsNil() && x.Fn == y.Fn)
		}
		return term.Bool(x.Obj == y.Obj && samePath(x.Path, y.Path))
	case SliceV:
		y := b.(SliceV)
		if x.IsNil() || y.IsNil() {
			return term.Bool(x.IsNil() && y.IsNil())
		}
		panic(internalf("comparison of non-nil slices"))
	case *MapObj:
		y := b.(*MapObj)
		return term.Bool(x == y)
	case FuncV:
		y := b.(FuncV)
		if x.IsNil() || y.IsNil() {
			return term.Bool(x.IsNil() && y.IsNil())
		}
		panic(internalf("comparison of non-nil funcs"))
	case IfaceV:
		y, ok := b.(IfaceV)
		if !ok {
			panic(internalf("iface compared with %T", b))
		}
		if x.IsNil() || y.IsNil() {
			return term.Bool(x.IsNil() && y.IsNil())
		}
		if !types.Identical(x.T, y.T) {
			return term.False
		}
		return e.valEq(x.V, y.V)
	case *StructV:
		y := b.(*StructV)
		r := term.True
		for i := range x.F {
			r = term.And(r, e.valEq(x.F[i], y.F[i]))
		}
		return r
	case *ArrayV:
		y := b.(*ArrayV)
		r := term.True
		for i := range x.E {
			r = term.And(r, e.valEq(x.E[i], y.E[i]))
		}
		return r
	case TimeV:
		y := b.(TimeV)
		if x.Zero || y.Zero {
			return term.Bool(x.Zero && y.Zero)
		}
		return term.Eq(x.NS, y.NS)
	}
	panic(internalf("valEq on %T", a))
}

func (e *Engine) scalarBinop(op token.Token, xt types.Type, x, y *term.Term, yt types.Type) Value {
	if x.W == 0 {
		switch op {
		case token.EQL:
			return term.Eq(x, y)
		case token.NEQ:
			return term.Not(term.Eq(x, y))
		case token.AND, token.LAND:
			return term.And(x, y)
		case token.OR, token.LOR:
			return term.Or(x, y)
		}
		panic(internalf("bool binop %v", op))
	}
	_, signed, _ := scalarWidth(xt)
	if isFloat(xt) {
		return e.floatBinop(op, x, y)
	}
	switch op {
	case token.ADD:
		return term.Bin(term.OpBvAdd, x, y)
	case token.SUB:
		return term.Bin(term.OpBvSub, x, y)
	case token.MUL:
		return term.Bin(term.OpBvMul, x, y)
	case token.QUO, token.REM:
		z := term.Eq(y, term.Const(y.W, 0))
		if e.fork([]*term.Term{term.Not(z), z}) == 1 {
			panic(pathEnd{kind: endPanic, msg: "integer divide by zero", site: e.where()})
		}
		if op == token.QUO {
			if signed {
				if inner := e.mulByConstNoOverflow(x, y); inner != nil {
					return inner
				}
				return term.Bin(term.OpBvSdiv, x, y)
			}
			return term.Bin(term.OpBvUdiv, x, y)
		}
		if signed {
			return term.Bin(term.OpBvSrem, x, y)
		}
		return term.Bin(term.OpBvUrem, x, y)
	case token.AND:
		return term.Bin(term.OpBvAnd, x, y)
	case token.OR:
		return term.Bin(term.OpBvOr, x, y)
	case token.XOR:
		return term.Bin(term.OpBvXor, x, y)
	case token.AND_NOT:
		return term.Bin(term.OpBvAnd, x, term.BvNot(y))
	case token.SHL, token.SHR:
		_, ysigned, _ := scalarWidth(yt)
		if ysigned {
			neg := term.Cmp(term.OpSlt, y, term.Const(y.W, 0))
			if e.fork([]*term.Term{term.Not(neg), neg}) == 1 {
				panic(pathEnd{kind: endPanic, msg: "negative shift amount", site: e.where()})
			}
		}
		// bring the count to x's width, saturating
		var cnt *term.Term
		if y.W > x.W {
			big := term.Cmp(term.OpUle, term.Const(y.W, uint64(x.W)), y)
			cnt = term.Ite(big, term.Const(x.W, uint64(x.W)), term.Extract(x.W-1, 0, y))
		} else {
			cnt = term.Zext(y, x.W)
		}
		if op == token.SHL {
			return term.Bin(term.OpBvShl, x, cnt)
		}
		if signed {
			return term.Bin(term.OpBvAshr, x, cnt)
		}
		return term.Bin(term.OpBvLshr, x, cnt)
	case token.EQL, token.NEQ:
		r := term.Eq(x, y)
		if signed && y.IsConst() && y.Val == 0 && x.Op == term.OpBvMul {
			// c*t == 0  <=>  t == 0 when c != 0 and c*t cannot overflow
			c := x.A
			if !c.IsConst() {
				c = x.B
			}
			if c.IsConst() && c.Val != 0 {
				if inner := e.mulByConstNoOverflow(x, c); inner != nil {
					r = term.Eq(inner, term.Const(inner.W, 0))
				}
			}
		}
		if op == token.NEQ {
			return term.Not(r)
		}
		return r
	case token.LSS:
		if signed {
			return term.Cmp(term.OpSlt, x, y)
		}
		return term.Cmp(term.OpUlt, x, y)
	case token.LEQ:
		if signed {
			return term.Cmp(term.OpSle, x, y)
		}
		return term.Cmp(term.OpUle, x, y)
	case token.GTR:
		if signed {
			return term.Cmp(term.OpSlt, y, x)
		}
		return term.Cmp(term.OpUlt, y, x)
	case token.GEQ:
		if signed {
			return term.Cmp(term.OpSle, y, x)
		}
		return term.Cmp(term.OpUle, y, x)
	}
	panic(internalf("int binop %v", op))
}

// float comparisons on IEEE bit patterns (no arithmetic).
func fNaN(x *term.Term) *term.Term {
	if x.W == 32 {
		abs := term.Extract(30, 0, x)
		return term.Cmp(term.OpUlt, term.Const(31, 0x7f800000), abs)
	}
	abs := term.Extract(62, 0, x)
	return term.Cmp(term.OpUlt, term.Const(63, 0x7ff0000000000000), abs)
}

func fZero(x *term.Term) *term.Term {
	return term.Eq(term.Extract(x.W-2, 0, x), term.Const(x.W-1, 0))
}

func floatEq(x, y *term.Term) *term.Term {
	ok := term.And(term.Not(fNaN(x)), term.Not(fNaN(y)))
	return term.And(ok, term.Or(term.Eq(x, y), term.And(fZero(x), fZero(y))))
}

func floatLess(x, y *term.Term) *term.Term {
	ok := term.And(term.Not(fNaN(x)), term.Not(fNaN(y)))
	w := x.W
	sx, sy := term.Eq(term.Extract(w-1, w-1, x), term.Const(1, 1)), term.Eq(term.Extract(w-1, w-1, y), term.Const(1, 1))
	mx, my := term.Extract(w-2, 0, x), term.Extract(w-2, 0, y)
	bothZero := term.And(fZero(x), fZero(y))
	// x<y: (sx && !sy && !bothZero) || (!sx && !sy && mx<my) || (sx && sy && my<mx)
	c1 := term.And(term.And(sx, term.Not(sy)), term.Not(bothZero))
	c2 := term.And(term.And(term.Not(sx), term.Not(sy)), term.Cmp(term.OpUlt, mx, my))
	c3 := term.And(term.And(sx, sy), term.Cmp(term.OpUlt, my, mx))
	return term.And(ok, term.Or(c1, term.Or(c2, c3)))
}

func (e *Engine) floatBinop(op token.Token, x, y *term.Term) Value {
	switch op {
	case token.EQL:
		return floatEq(x, y)
	case token.NEQ:
		return term.Not(floatEq(x, y))
	case token.LSS:
		return floatLess(x, y)
	case token.GTR:
		return floatLess(y, x)
	case token.LEQ:
		return term.Or(floatLess(x, y), floatEq(x, y))
	case token.GEQ:
		return term.Or(floatLess(y, x), floatEq(x, y))
	}
	panic(pathEnd{kind: endInconclusive, msg: "float arithmetic", site: e.where()})
}

func (e *Engine) unop(x *ssa.UnOp, v Value) Value {
	switch x.Op {
	case token.MUL:
		return e.load(v.(PtrV))
	case token.NOT:
		return term.Not(v.(*term.Term))
	case token.SUB:
		if isFloat(x.X.Type()) {
			t := v.(*term.Term)
			return term.Bin(term.OpBvXor, t, term.Const(t.W, uint64(1)<<uint(t.W-1)))
		}
		return term.BvNeg(v.(*term.Term))
	case token.XOR:
		return term.BvNot(v.(*term.Term))
	case token.ARROW:
		panic(pathEnd{kind: endInconclusive, msg: "concurrency", site: e.where()})
	}
	panic(internalf("unop %v", x.Op))
}

func (e *Engine) convert(from, to types.Type, v Value) Value {
	fu, tu := from.Underlying(), to.Underlying()
	// pointer <-> unsafe.Pointer
	if tb, ok := tu.(*types.Basic); ok && tb.Kind() == types.UnsafePointer {
		switch p := v.(type) {
		case PtrV:
			return p
		case *term.Term:
			if p.IsConst() && p.Val == 0 {
				return PtrV{}
			}
			panic(pathEnd{kind: endInconclusive, msg: "uintptr to unsafe.Pointer", site: e.where()})
		}
	}
	if fb, ok := fu.(*types.Basic); ok && fb.Kind() == types.UnsafePointer {
		if tp, ok := tu.(*types.Pointer); ok {
			p := v.(PtrV)
			if p.IsNil() {
				return p
			}
			cur := e.typeAt(p)
			if cur != nil && types.Identical(cur.Underlying(), tp.Elem().Underlying()) {
				return PtrV{Obj: p.Obj, Path: p.Path}
			}
			return PtrV{Obj: p.Obj, Path: p.Path, As: tp.Elem()}
		}
		panic(pathEnd{kind: endInconclusive, msg: "unsafe.Pointer to uintptr", site: e.where()})
	}
	switch x := v.(type) {
	case *term.Term:
		if isString(to) {
			// integer (rune) to string
			return e.runeToString(x, from)
		}
		tw, _, ok := scalarWidth(to)
		if !ok {
			panic(internalf("convert scalar to %v", to))
		}
		_, fsigned, _ := scalarWidth(from)
		ff, tf := isFloat(from), isFloat(to)
		switch {
		case ff && tf:
			if x.W == tw {
				return x
			}
			return e.floatConv(x, tw)
		case ff || tf:
			return e.intFloatConv(x, from, to)
		}
		return term.Resize(x, tw, fsigned)
	case StrV:
		if _, ok := tu.(*types.Slice); ok {
			el := tu.(*types.Slice).Elem().Underlying().(*types.Basic)
			if el.Kind() == types.Uint8 {
				o := e.newArrayObj(el, len(x.B), "")
				arr := o.Root.(*ArrayV)
				for i, b := range x.B {
					arr.E[i] = b
				}
				return SliceV{Obj: o, Len: len(x.B), Cap: len(x.B)}
			}
			// []rune
			return e.stringToRunes(x, el)
		}
		if isString(to) {
			return x
		}
	case SliceV:
		if isString(to) {
			el := fu.(*types.Slice).Elem().Underlying().(*types.Basic)
			if el.Kind() == types.Uint8 {
				b := e.sliceBytes(x)
				return StrV{B: b}
			}
			return e.runesToString(x)
		}
		if _, ok := tu.(*types.Slice); ok {
			return x
		}
	}
	if types.Identical(fu, tu) {
		return v
	}
	panic(internalf("unsupported conversion %v -> %v (%T)", from, to, v))
}

// typeAt returns the static type of the location p points at, if derivable.
func (e *Engine) typeAt(p PtrV) types.Type {
	t := p.Obj.Typ
	for _, i := range p.Path {
		if t == nil {
			return nil
		}
		switch u := t.Underlying().(type) {
		case *types.Struct:
			t = u.Field(i).Type()
		case *types.Array:
			t = u.Elem()
		default:
			return nil
		}
	}
	return t
}

func (e *Engine) floatConv(x *term.Term, tw int) Value {
	if x.IsConst() {
		if x.W == 64 {
			return term.Const(32, uint64(f32bits(float32(f64from(x.Val)))))
		}
		return term.Const(64, f64bits(float64(f32from(uint32(x.Val)))))
	}
	panic(pathEnd{kind: endInconclusive, msg: "float width conversion of symbolic value", site: e.where()})
}

func (e *Engine) intFloatConv(x *term.Term, from, to types.Type) Value {
	if !x.IsConst() {
		panic(pathEnd{kind: endInconclusive, msg: "int/float conversion of symbolic value", site: e.where()})
	}
	tw, tsigned, _ := scalarWidth(to)
	_, fsigned, _ := scalarWidth(from)
	if isFloat(to) {
		var f float64
		if fsigned {
			f = float64(x.SignedVal())
		} else {
			f = float64(x.Val)
		}
		if tw == 32 {
			return term.Const(32, uint64(f32bits(float32(f))))
		}
		return term.Const(64, f64bits(f))
	}
	var f float64
	if x.W == 32 {
		f = float64(f32from(uint32(x.Val)))
	} else {
		f = f64from(x.Val)
	}
	if tsigned {
		return term.Const(tw, uint64(int64(f)))
	}
	return term.Const(tw, uint64(f))
}

// ---------- maps ----------

func (e *Engine) keyEq(a, b Value, kt types.Type) *term.Term {
	if isFloat(kt) {
		return floatEq(a.(*term.Term), b.(*term.Term))
	}
	return e.valEq(a, b)
}

// mapFind returns the index of the entry matching key (forking on symbolic
// equality), or -1.
func (e *Engine) mapFind(m *MapObj, key Value) int {
	if m == nil || len(m.Entries) == 0 {
		return -1
	}
	kt := m.Typ.Key()
	alts := make([]*term.Term, len(m.Entries)+1)
	none := term.True
	for i, en := range m.Entries {
		c := e.keyEq(key, en.K, kt)
		alts[i] = term.And(none, c)
		none = term.And(none, term.Not(c))
	}
	alts[len(m.Entries)] = none
	ch := e.fork(alts)
	if ch == len(m.Entries) {
		return -1
	}
	return ch
}

func (e *Engine) mapLog(m *MapObj) {
	if m.Base && !e.inBase {
		e.undo = append(e.undo, undoRec{m: m, ents: append([]*mapEntry(nil), m.Entries...)})
	}
}

func (e *Engine) mapUpdate(m *MapObj, k, v Value) {
	if m == nil {
		panic(pathEnd{kind: endPanic, msg: "assignment to entry in nil map", site: e.where()})
	}
	i := e.mapFind(m, k)
	e.mapLog(m)
	if i >= 0 {
		// replace entry (entries are immutable records so snapshots stay valid)
		ents := append([]*mapEntry(nil), m.Entries...)
		ents[i] = &mapEntry{K: m.Entries[i].K, V: copyVal(v)}
		m.Entries = ents
		return
	}
	m.Entries = append(m.Entries[:len(m.Entries):len(m.Entries)], &mapEntry{K: copyVal(k), V: copyVal(v)})
}

func (e *Engine) mapDelete(m *MapObj, k Value) {
	if m == nil {
		return
	}
	i := e.mapFind(m, k)
	if i < 0 {
		return
	}
	e.mapLog(m)
	ents := append([]*mapEntry(nil), m.Entries[:i]...)
	ents = append(ents, m.Entries[i+1:]...)
	m.Entries = ents
}

func (e *Engine) lookup(fr *frame, x *ssa.Lookup) Value {
	base := e.get(fr, x.X)
	switch b := base.(type) {
	case StrV:
		idx := e.get(fr, x.Index).(*term.Term)
		if !idx.IsConst() && len(b.B) <= 512 && len(b.B) > 0 {
			vals := make([]Value, len(b.B))
			for i, t := range b.B {
				vals[i] = t
			}
			if v, ok := e.selectArray(vals, idx, x.Index.Type()); ok {
				return v
			}
		}
		i := e.boundInt(idx, x.Index.Type(), len(b.B)-1, "index out of range")
		return b.B[i]
	case *MapObj:
		key := e.get(fr, x.Index)
		var vt types.Type
		if x.CommaOk {
			vt = x.Type().(*types.Tuple).At(0).Type()
		} else {
			vt = x.Type()
		}
		i := e.mapFind(b, key)
		var v Value
		if i >= 0 {
			v = copyVal(b.Entries[i].V)
		} else {
			v = zero(vt)
		}
		if x.CommaOk {
			return TupleV{v, term.Bool(i >= 0)}
		}
		return v
	}
	panic(internalf("lookup on %T", base))
}

func (e *Engine) rangeOp(v Value) Value {
	switch x := v.(type) {
	case StrV:
		return &IterV{IsStr: true, Str: x}
	case *MapObj:
		it := &IterV{Map: x}
		if x != nil {
			it.Entries = append([]*mapEntry(nil), x.Entries...)
			if e.permute && len(it.Entries) > 1 {
				// fork over all orders: successive choices of the next entry
				n := len(it.Entries)
				rest := it.Entries
				var ord []*mapEntry
				for len(rest) > 1 {
					k := e.choose(0, len(rest)-1)
					e.logConcrete("order", uint64(k))
					ord = append(ord, rest[k])
					nr := append([]*mapEntry(nil), rest[:k]...)
					nr = append(nr, rest[k+1:]...)
					rest = nr
				}
				ord = append(ord, rest[0])
				it.Entries = ord
				_ = n
			}
		}
		return it
	}
	panic(internalf("range over %T", v))
}

func (e *Engine) next(x *ssa.Next, it *IterV) Value {
	if it.IsStr {
		if it.Pos >= len(it.Str.B) {
			return TupleV{term.False, term.Const(64, 0), term.Const(32, 0)}
		}
		pos := it.Pos
		r, size := e.decodeRune(StrV{B: it.Str.B[pos:]})
		it.Pos += size
		return TupleV{term.True, term.Const(64, uint64(pos)), r}
	}
	tt := x.Type().(*types.Tuple)
	for it.Pos < len(it.Entries) {
		en := it.Entries[it.Pos]
		it.Pos++
		// entry deleted or replaced meanwhile? use the current binding
		cur := en
		found := false
		for _, c := range it.Map.Entries {
			if c == en {
				found = true
				break
			}
			if sameConstKey(c.K, en.K) {
				cur = c
				found = true
				break
			}
		}
		if !found {
			continue
		}
		return TupleV{term.True, copyVal(cur.K), copyVal(cur.V)}
	}
	return TupleV{term.False, zeroIfValid(tt.At(1).Type()), zeroIfValid(tt.At(2).Type())}
}

func sameConstKey(a, b Value) bool {
	switch x := a.(type) {
	case TimeV:
		y, ok := b.(TimeV)
		return ok && x.Zero == y.Zero && x.NS == y.NS
	case *ArrayV:
		y, ok := b.(*ArrayV)
		if !ok || len(x.E) != len(y.E) {
			return false
		}
		for i := range x.E {
			if !sameConstKey(x.E[i], y.E[i]) {
				return false
			}
		}
		return true
	case *term.Term:
		y, ok := b.(*term.Term)
		return ok && x == y
	case StrV:
		y, ok := b.(StrV)
		if !ok || len(x.B) != len(y.B) {
			return false
		}
		for i := range x.B {
			if x.B[i] != y.B[i] {
				return false
			}
		}
		return true
	}
	return false
}

func (e *Engine) typeAssert(x *ssa.TypeAssert, v IfaceV) Value {
	ok := false
	if !v.IsNil() {
		if types.IsInterface(x.AssertedType) {
			ok = types.Implements(v.T, x.AssertedType.Underlying().(*types.Interface))
		} else {
			ok = types.Identical(v.T, x.AssertedType)
		}
	}
	var res Value
	if ok {
		if types.IsInterface(x.AssertedType) {
			res = v
		} else {
			res = v.V
		}
	}
	if x.CommaOk {
		if !ok {
			res = zero(x.AssertedType)
		}
		return TupleV{res, term.Bool(ok)}
	}
	if !ok {
		panic(pathEnd{kind: endPanic, msg: fmt.Sprintf("type assertion failed: %v is not %v", v.T, x.AssertedType), site: e.where()})
	}
	return res
}

func zeroIfValid(t types.Type) Value {
	if b, ok := t.(*types.Basic); ok && b.Kind() == types.Invalid {
		return term.False
	}
	return zero(t)
}

// mulByConstNoOverflow recognises x = c*t (signed, c a positive constant equal
// to div) and returns t if the solver shows, under the current path
// condition, that c*t cannot overflow (|t| <= MaxInt/c). This is what lets
// the date kernels (t*100)/100 and t*100 == 0 be decided without handing a
// 64-bit multiplication and division to the bit-blaster; the side condition
// is a linear query.
func (e *Engine) mulByConstNoOverflow(x, div *term.Term) *term.Term {
	if x.Op != term.OpBvMul || !div.IsConst() || div.SignedVal() <= 1 {
		return nil
	}
	var t *term.Term
	switch {
	case x.A.IsConst() && x.A.Val == div.Val:
		t = x.B
	case x.B.IsConst() && x.B.Val == div.Val:
		t = x.A
	default:
		return nil
	}
	w := t.W
	maxInt := int64(1)<<uint(w-1) - 1
	m := maxInt / div.SignedVal()
	inRange := term.And(term.Cmp(term.OpSle, term.Const(w, uint64(-m)), t), term.Cmp(term.OpSle, t, term.Const(w, uint64(m))))
	if inRange.IsTrue() {
		return t
	}
	if inRange.IsFalse() {
		return nil
	}
	key := [2]int{t.ID, int(div.Val)}
	if e.tpos < len(e.trace) {
		// replay: the answer was recorded as a single-alternative decision
		d := &e.trace[e.tpos]
		if d.kind != 'm' {
			panic(internalf("replay divergence: expected mul-range, trace has %c", d.kind))
		}
		e.assertDecision(e.tpos, term.True)
		e.tpos++
		if d.alts[0] == 1 {
			return t
		}
		return nil
	}
	_ = key
	ok := uint64(0)
	if e.checkWith(term.Not(inRange)).String() == "unsat" {
		ok = 1
	}
	e.trace = append(e.trace, decision{n: 1, alts: []uint64{ok}, kind: 'm'})
	e.assertDecision(e.tpos, term.True)
	e.tpos++
	if ok == 1 {
		return t
	}
	return nil
}
