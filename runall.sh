#!/bin/sh
# Runs every registered quick (or $1=thorough) command and prints exit codes and wall times.
cd "$(dirname "$0")"
tier=${1:-quick}
for id in $(python3 -c "import json;print(' '.join(c['property_id'] for c in json.load(open('MANIFEST.json'))['checks']))"); do
  s=$(date +%s)
  bin/vcheck run $id --tier $tier > /tmp/runall-$id.out 2>&1
  rc=$?
  e=$(date +%s)
  echo "$id exit=$rc wall=$((e-s))s $(grep -c '^KNOWN-FINDING' /tmp/runall-$id.out) known $(grep -c '^VIOLATION' /tmp/runall-$id.out) violations $(grep -c '^BROKEN' /tmp/runall-$id.out) broken $(grep -c '^INCONCLUSIVE' /tmp/runall-$id.out) inconclusive"
done
